//! C17 — dialect translation emits valid target-dialect SQL with the same meaning.
//! Translation validation over E-sql relations and their DP rewritings x the eight translators:
//! accepted by sqlparser's parser for that dialect as exactly one query; read back with the same
//! dialect (seven reading translators) gives the same output names, order and types; the SQLite
//! rendering executes on SQLite with the results of the PostgreSQL rendering.
use crate::common::*;
use crate::sqlchecks::{compile, Outcome};
use crate::sqlgen::queries;
use crate::sqlite::{same_multiset, Engine};
use crate::world::World;
use qrlew::builder::With;
use qrlew::data_type::DataTyped;
use qrlew::dialect::Dialect;
use qrlew::dialect_translation::{
    bigquery::BigQueryTranslator, databricks::DatabricksTranslator, hive::HiveTranslator, mssql::MsSqlTranslator, mysql::MySqlTranslator,
    postgresql::PostgreSqlTranslator, redshiftsql::RedshiftSqlTranslator, sqlite::SQLiteTranslator, QueryToRelationTranslator, RelationToQueryTranslator,
    RelationWithTranslator,
};
use qrlew::differential_privacy::DpParameters;
use qrlew::hierarchy::Hierarchy;
use qrlew::relation::{Relation, Variant as _};
use qrlew::{ast, parser::Parser};
use serde_json::json;
use std::sync::Arc;

fn render<T: RelationToQueryTranslator>(rel: &Relation, t: T) -> Result<String, Panic> {
    guarded(|| ast::Query::from(RelationWithTranslator(rel, t)).to_string())
}

/// parse with sqlparser for that dialect: exactly one statement, a query
fn parse_one<D: Dialect>(text: &str, d: &D) -> Result<ast::Query, String> {
    match guarded(|| Parser::parse_sql(d, text)) {
        Ok(Ok(stmts)) => {
            if stmts.len() != 1 {
                return Err(format!("{} statements", stmts.len()));
            }
            match stmts.into_iter().next().unwrap() {
                ast::Statement::Query(q) => Ok(*q),
                other => Err(format!("not a query: {}", other.to_string().chars().take(40).collect::<String>())),
            }
        }
        Ok(Err(e)) => Err(e.to_string()),
        Err(p) => Err(format!("parser panic {}", p.site())),
    }
}

fn norm_err(e: &str) -> String {
    // keep the shape of the message, drop the offending positions
    // identifiers are generated names: drop them
    let mut e: String = e.replace('\n', " ").chars().take(90).collect();
    for q in ['"', '`'] {
        while let (Some(a), Some(b)) = (e.find(q), e.rfind(q)) {
            if a < b {
                e.replace_range(a..=b, "<id>");
            } else {
                break;
            }
        }
    }
    let mut out = String::new();
    for c in e.chars() {
        if c.is_ascii_digit() {
            if !out.ends_with('#') {
                out.push('#');
            }
        } else {
            out.push(c);
        }
    }
    out.replace(' ', "_")
}

thread_local! {
    static KNOWN: std::collections::BTreeSet<String> = crate::features::open_known("C17");
}

/// Signature of a failure of the class `kind` (dialect + failure + normalised message): the per-case one
/// (`kind :: subject=.. tags=..`) when it is a known finding; for the composed terms the root-cause class
/// `kind @subject=<relation|dp-rewriting>` when that is one; else the per-case one (a new violation).
fn class_sig(kind: String, s: &Subject) -> String {
    let case = format!("subject={} tags={}", s.what, s.tags);
    let feats = if s.tags.starts_with("term:") { vec![format!("subject={}", s.what)] } else { vec![] };
    KNOWN.with(|k| crate::features::resolve(&kind, &case, &feats, k))
}

struct Subject {
    tags: String,
    sql: String,
    what: &'static str,
    relation: Arc<Relation>,
}

fn check_dialect<T>(name: &'static str, t: T, s: &Subject, relations: &Hierarchy<Arc<Relation>>, r: &mut Report)
where
    T: RelationToQueryTranslator + QueryToRelationTranslator + Copy + Clone,
{
    r.evaluations += 1;
    let case = format!("subject={} tags={}", s.what, s.tags);
    let text = match render(&s.relation, t) {
        Ok(t) => t,
        Err(p) => {
            r.violation(class_sig(format!("dialect={name} fail=render-panic {}", p.site()), s), &s.sql, json!({"query": s.sql, "subject": s.what, "panic": p.message}));
            return;
        }
    };
    let d = t.dialect();
    let q = match parse_one(&text, &d) {
        Ok(q) => q,
        Err(e) => {
            r.violation(class_sig(format!("dialect={name} fail=parse {}", norm_err(&e)), s), &s.sql, json!({"query": s.sql, "subject": s.what, "rendered": text, "error": e}));
            return;
        }
    };
    r.reach("parsed_ok_by_dialect", name);
    // sqlparser accepts a WITH clause that declares the same name twice; every target engine refuses it
    if let Some(w) = &q.with {
        let mut seen = std::collections::BTreeSet::new();
        for cte in &w.cte_tables {
            if !seen.insert(cte.alias.name.value.clone()) {
                r.violation(class_sig(format!("dialect={name} fail=duplicate-cte-name"), s), &s.sql, json!({"query": s.sql, "subject": s.what, "rendered": text, "declared_twice": cte.alias.name.value}));
                return;
            }
        }
    }
    // read back
    let back = guarded(|| Relation::try_from((q.with(relations), t)));
    match back {
        Ok(Ok(b)) => {
            r.reach("read_back_ok_by_dialect", name);
            r.distinct_nontrivial += 1;
            if r.samples.is_empty() && name != "postgresql" {
                r.sample(json!({"subject": s.what, "query": s.sql, "dialect": name, "translated": text.chars().take(400).collect::<String>(), "read_back_columns": b.schema().iter().map(|f| format!("{}: {}", f.name(), f.data_type())).collect::<Vec<_>>()}));
            }
            let orig: Vec<(String, String)> = s.relation.schema().iter().map(|f| (f.name().to_string(), f.data_type().to_string())).collect();
            let got: Vec<(String, String)> = b.schema().iter().map(|f| (f.name().to_string(), f.data_type().to_string())).collect();
            let names_o: Vec<&String> = orig.iter().map(|x| &x.0).collect();
            let names_g: Vec<&String> = got.iter().map(|x| &x.0).collect();
            if names_o != names_g {
                r.violation(
                    format!("dialect={name} fail=readback-names :: {}", case),
                    &s.sql,
                    json!({"query": s.sql, "subject": s.what, "rendered": text, "original_columns": names_o, "read_back_columns": names_g}),
                );
            } else {
                let same_types = s.relation.schema().iter().zip(b.schema().iter()).all(|(x, y)| x.data_type() == y.data_type());
                if !same_types {
                    r.violation(
                        format!("dialect={name} fail=readback-types :: {}", case),
                        &s.sql,
                        json!({"query": s.sql, "subject": s.what, "rendered": text, "original": orig, "read_back": got}),
                    );
                }
            }
        }
        Ok(Err(e)) => {
            r.violation(
                class_sig(format!("dialect={name} fail=readback-err {}", norm_err(&e.to_string())), s),
                &s.sql,
                json!({"query": s.sql, "subject": s.what, "rendered": text, "error": e.to_string().chars().take(300).collect::<String>()}),
            );
        }
        Err(p) => {
            r.violation(
                class_sig(format!("dialect={name} fail=readback-panic {}", p.site()), s),
                &s.sql,
                json!({"query": s.sql, "subject": s.what, "rendered": text, "panic": p.message}),
            );
        }
    }
}

pub fn run(ctx: &Ctx) -> Report {
    let mut head = Report::new("translation_validation");
    if let Err(e) = crate::sqlite::self_test() {
        head.machinery_errors.push(e);
        return head;
    }
    let world = World::standard();
    let relations = world.relations();
    // subjects: compiled E-sql relations, plus DP rewritings of the aggregate queries
    let mut subjects: Vec<Subject> = vec![];
    let mut extra = vec![
        "SELECT age AS \"my col\", city AS \"select\", id AS \"Order\" FROM users".to_string(),
        "SELECT 'a''b' AS q, 'x\"y' AS dq, 'back`tick' AS bt FROM users".to_string(),
        "SELECT \"my col\" FROM (SELECT age AS \"my col\" FROM users) AS t WHERE \"my col\" > 18".to_string(),
    ];
    let mut sqls: Vec<(String, String)> = queries(ctx.tier).into_iter().map(|g| (g.sql, g.tags.join("+"))).collect();
    // composed terms: every unary constructor over the base tables and the users/orders joins; thorough: depth 2
    {
        let mut seen: std::collections::BTreeSet<String> = sqls.iter().map(|x| x.0.clone()).collect();
        let composed: Vec<crate::sqlgen2::Rel> = if ctx.tier == Tier::Quick {
            let mut v = crate::sqlgen2::level1_unary(true);
            v.extend(crate::sqlgen2::level1_binary().into_iter().filter(|r| r.term.ends_with("(users, orders)") || r.term.ends_with("(orders, users)")));
            v.extend(crate::sqlgen2::shared_cte_terms(true));
            // a LIMIT / OFFSET below an aggregation or a projection
            v.extend(crate::sqlgen2::compose(2).into_iter().filter(|r| (r.term.contains("(O1(") || r.term.contains("(O2(")) && (r.term.starts_with("A1(") || r.term.starts_with("A2(") || r.term.starts_with("P1(") || r.term.starts_with("A3("))));
            v
        } else {
            crate::sqlgen2::compose(2)
        };
        let mut picked = vec![];
        for r in composed {
            if seen.insert(r.sql.clone()) {
                picked.push((r.sql.clone(), format!("term:{}", r.term.split('(').next().unwrap_or("").split("(c").next().unwrap_or(""))));
            }
        }
        // keep the three quoting subjects last (they are always included)
        sqls.extend(picked);
    }
    sqls.extend(extra.drain(..).map(|s| (s, "quoting".to_string())));
    let step = ctx.tier.pick(2, 1);
    for (i, (sql, tags)) in sqls.iter().enumerate() {
        if i % step != 0 && ctx.tier == Tier::Quick && i < sqls.len() - 3 && !tags.starts_with("term:") {
            continue;
        }
        if !ctx.wants(sql) {
            continue;
        }
        if let Outcome::Ok(c) = compile(sql, &relations) {
            let rel = c.relation.clone();
            subjects.push(Subject { tags: tags.clone(), sql: sql.clone(), what: "relation", relation: rel.clone() });
            if sql.contains("count(") || sql.contains("sum(") || sql.contains("avg(") {
                let dp = guarded(|| rel.rewrite_with_differential_privacy(&relations, None, crate::c18::privacy_unit(), DpParameters::from_epsilon_delta(1.0, 1e-3)));
                if let Ok(Ok(dp)) = dp {
                    subjects.push(Subject { tags: tags.clone(), sql: sql.clone(), what: "dp-rewriting", relation: Arc::new(dp.relation().clone()) });
                }
            }
        }
    }
    head.set("subjects", subjects.len() as u64);
    head.set("dp_rewriting_subjects", subjects.iter().filter(|s| s.what == "dp-rewriting").count() as u64);
    let relations = &relations;
    let world = &world;
    let chunks: Vec<Vec<Subject>> = {
        let mut v: Vec<Vec<Subject>> = (0..32).map(|_| vec![]).collect();
        for (i, s) in subjects.into_iter().enumerate() {
            v[i % 32].push(s);
        }
        v
    };
    let body = par_reports_isolated(chunks, "translation_validation", move |subs, r| {
        let e = Engine::new();
        let empty: crate::world::Db = world.tables.iter().map(|t| (t.name, vec![])).collect();
        e.load(&world.load_spec(&empty)).expect("create tables");
        for s in subs {
            check_dialect("postgresql", PostgreSqlTranslator, &s, relations, r);
            check_dialect("mysql", MySqlTranslator, &s, relations, r);
            check_dialect("mssql", MsSqlTranslator, &s, relations, r);
            check_dialect("bigquery", BigQueryTranslator, &s, relations, r);
            check_dialect("hive", HiveTranslator, &s, relations, r);
            check_dialect("databricks", DatabricksTranslator, &s, relations, r);
            check_dialect("redshift", RedshiftSqlTranslator, &s, relations, r);
            // SQLite: parse with the SQLite dialect, then execute against the PostgreSQL rendering
            r.evaluations += 1;
            let case = format!("subject={} tags={}", s.what, s.tags);
            let text = match render(&s.relation, SQLiteTranslator) {
                Ok(t) => t,
                Err(p) => {
                    r.violation(class_sig(format!("dialect=sqlite fail=render-panic {}", p.site()), &s), &s.sql, json!({"query": s.sql, "panic": p.message}));
                    continue;
                }
            };
            if let Err(err) = parse_one(&text, &qrlew::dialect::SQLiteDialect {}) {
                r.violation(class_sig(format!("dialect=sqlite fail=parse {}", norm_err(&err)), &s), &s.sql, json!({"query": s.sql, "rendered": text, "error": err}));
                continue;
            }
            r.reach("parsed_ok_by_dialect", "sqlite");
            let pg = match render(&s.relation, PostgreSqlTranslator) {
                Ok(t) => t,
                Err(_) => continue,
            };
            // the only offline engine: run both renderings on every small database
            let tables: Vec<&str> = world.tables.iter().map(|t| t.name).filter(|n| s.sql.contains(*n)).collect();
            for db in world.databases(&tables, 2).into_iter().step_by(7) {
                e.load(&world.load_spec(&db)).expect("load");
                e.conn.flush_prepared_statement_cache();
                e.set_script(vec![], None);
                let a = e.query(&pg);
                e.set_script(vec![], None);
                let b = e.query(&text);
                match (a, b) {
                    (Ok(a), Ok(b)) => {
                        r.add_count("sqlite_executions_compared", 1);
                        if !same_multiset(&a, &b, 1e-9) {
                            r.violation(format!("dialect=sqlite fail=results-differ :: {}", case), &s.sql, json!({"query": s.sql, "sqlite_rendering": text, "postgres_result": a.show(), "sqlite_result": b.show()}));
                            break;
                        }
                    }
                    (Ok(_), Err(err)) => {
                        r.violation(
                            class_sig(format!("dialect=sqlite fail=execution {}", norm_err(&err.split(" in ").next().unwrap_or(&err).to_string())), &s),
                            &s.sql,
                            json!({"query": s.sql, "subject": s.what, "sqlite_rendering": text.chars().take(600).collect::<String>(), "error": err.chars().take(200).collect::<String>()}),
                        );
                        break;
                    }
                    _ => break,
                }
            }
        }
    });
    head.merge(body);
    head.set("programs", head.extra.get("subjects").cloned().unwrap_or(json!(0)));
    head.set("disagreements_checked", head.violations.values().map(|v| v.0).sum::<u64>());
    head.rule = "subjects = compiled E-sql relations (quick: every second one) and the DP rewritings of the aggregate queries, plus identifiers with spaces, reserved words and quotes x 8 translators; oracle: sqlparser for that dialect accepts the text as exactly one query; for the 7 reading translators Relation::try_from((query, translator)) gives the same column names, order and types; the SQLite rendering executes on SQLite with the results of the PostgreSQL rendering. non-trivial = (subject, dialect) pairs read back successfully".into();
    head.assumptions = vec![
        "acceptance by the target dialect is judged by sqlparser's dialect parsers, not by the real engines".into(),
        "the 'same results' clause is decided for SQLite only (the only engine available offline); it is NOT decided for the other seven dialects".into(),
    ];
    head
}
