//! Structural features of a relation (IR), used to attribute a violation to a known root cause
//! ("call site") instead of to one query text: a known finding `kind @feature` covers the violations of
//! that kind on relations that contain the construct. The predicates are written here, independently of
//! the library's own helpers (a change of `expr_has_unique_constraint` must not widen what is excused).
use qrlew::expr::{aggregate::Aggregate, function::Function, Expr};
use qrlew::relation::{JoinOperator, Relation, Variant as _};
use qrlew::data_type::DataTyped as _;
use std::collections::BTreeSet;

fn conjuncts(e: &Expr, out: &mut Vec<Expr>) {
    if let Expr::Function(f) = e {
        if f.function() == Function::And {
            for a in f.arguments().iter() {
                conjuncts(a, out);
            }
            return;
        }
    }
    out.push(e.clone());
}

/// the ON clause has a top-level conjunct `_LEFT_.c = _RIGHT_.d` where c or d is declared unique in its input
fn equates_a_unique_column(on: &Expr, left: &Relation, right: &Relation) -> bool {
    let mut cs = vec![];
    conjuncts(on, &mut cs);
    let unique = |side: &Relation, name: &str| side.schema().iter().any(|f| f.name() == name && f.has_unique_or_primary_key_constraint());
    for c in cs.iter() {
        if let Expr::Function(f) = c {
            if f.function() == Function::Eq {
                let args = f.arguments();
                if let (Expr::Column(a), Expr::Column(b)) = (&args[0], &args[1]) {
                    let (pa, pb): (Vec<String>, Vec<String>) = (a.iter().cloned().collect(), b.iter().cloned().collect());
                    let side_unique = |p: &Vec<String>| match (p.first().map(|s| s.as_str()), p.last()) {
                        (Some("_LEFT_"), Some(n)) => unique(left, n),
                        (Some("_RIGHT_"), Some(n)) => unique(right, n),
                        _ => false,
                    };
                    if pa.first() != pb.first() && (side_unique(&pa) || side_unique(&pb)) {
                        return true;
                    }
                }
            }
        }
    }
    false
}

const PROTECTED: [&str; 12] = ["users", "orders", "items", "m", "people", "purchases", "lines", "mm", "main_users", "main_orders", "main_items", "main_m"];

fn has_protected_table(r: &Relation) -> bool {
    match r {
        Relation::Table(t) => PROTECTED.contains(&t.name()),
        r => r.inputs().iter().any(|i| has_protected_table(i)),
    }
}

pub fn reads_protected_table(r: &Relation) -> bool {
    has_protected_table(r)
}

/// the base-table column a field is a plain copy of (through projections that only rename, joins and group-by
/// keys), as `table.column`
fn base_column(r: &Relation, field: &str) -> Option<String> {
    match r {
        Relation::Table(t) => Some(format!("{}.{}", t.name(), field)),
        Relation::Map(m) => {
            let e = m.named_exprs().into_iter().find(|(n, _)| *n == field)?.1;
            match e {
                Expr::Column(c) => base_column(m.input(), c.last().ok()?),
                _ => None,
            }
        }
        Relation::Reduce(red) => {
            let (_, agg) = red.named_aggregates().into_iter().find(|(n, _)| *n == field)?;
            if matches!(agg.aggregate(), Aggregate::First) && red.group_by().iter().any(|g| g.last().ok() == agg.column_name().ok()) {
                base_column(red.input(), agg.column_name().ok()?)
            } else {
                None
            }
        }
        Relation::Join(j) => {
            let pos = j.schema().iter().position(|f| f.name() == field)?;
            let nl = j.left().schema().len();
            if pos < nl {
                base_column(j.left(), j.left().schema().iter().nth(pos)?.name())
            } else {
                base_column(j.right(), j.right().schema().iter().nth(pos - nl)?.name())
            }
        }
        _ => None,
    }
}

/// the link domain of a base column: two rows that agree on columns of one domain belong to the same privacy unit
fn unit_link(base: &str) -> Option<&'static str> {
    match base {
        "users.id" | "orders.user_id" | "people.id" | "purchases.user_id" | "main_users.id" | "main_orders.user_id" => Some("unit"),
        "orders.id" | "items.order_id" | "purchases.id" | "lines.order_id" | "main_orders.id" | "main_items.order_id" => Some("order"),
        _ => None,
    }
}

/// the ON clause has a top-level conjunct equating two columns that identify the same privacy unit on both sides
fn on_implies_same_unit(on: &Expr, left: &Relation, right: &Relation) -> bool {
    let mut cs = vec![];
    conjuncts(on, &mut cs);
    for c in cs.iter() {
        if let Expr::Function(f) = c {
            if f.function() == Function::Eq {
                let args = f.arguments();
                if let (Expr::Column(a), Expr::Column(b)) = (&args[0], &args[1]) {
                    let (pa, pb): (Vec<String>, Vec<String>) = (a.iter().cloned().collect(), b.iter().cloned().collect());
                    let side = |p: &Vec<String>| -> Option<&'static str> {
                        match (p.first().map(|s| s.as_str()), p.last()) {
                            (Some("_LEFT_"), Some(n)) => base_column(left, n).and_then(|b| unit_link(&b)),
                            (Some("_RIGHT_"), Some(n)) => base_column(right, n).and_then(|b| unit_link(&b)),
                            _ => None,
                        }
                    };
                    if pa.first() != pb.first() {
                        if let (Some(x), Some(y)) = (side(&pa), side(&pb)) {
                            if x == y {
                                return true;
                            }
                        }
                    }
                }
            }
        }
    }
    false
}

pub fn features(r: &Relation) -> Vec<String> {
    let mut out = BTreeSet::new();
    fn walk(r: &Relation, out: &mut BTreeSet<String>) {
        match r {
            Relation::Reduce(red) => {
                fn has_reduce(r: &Relation) -> bool {
                    matches!(r, Relation::Reduce(_)) || r.inputs().iter().any(|i| has_reduce(i))
                }
                if red.inputs().iter().any(|i| has_reduce(i)) {
                    out.insert("reduce.below-reduce".to_string());
                }
                if red.aggregate().iter().any(|a| matches!(a.aggregate(), Aggregate::CountDistinct | Aggregate::SumDistinct | Aggregate::MeanDistinct | Aggregate::VarDistinct | Aggregate::StdDistinct)) {
                    out.insert("reduce.distinct-aggregate".to_string());
                }
                // SUM of a nullable column: a group whose values are all NULL sums to NULL in SQL
                if red.aggregate().iter().any(|a| {
                    matches!(a.aggregate(), Aggregate::Sum)
                        && a.column_name().ok().and_then(|n| red.input().schema().iter().find(|f| f.name() == n).map(|f| matches!(f.data_type(), qrlew::data_type::DataType::Optional(_)))).unwrap_or(false)
                }) {
                    out.insert("reduce.sum-of-nullable".to_string());
                }
                if red.group_by().is_empty() && red.aggregate().iter().any(|a| !matches!(a.aggregate(), Aggregate::Count | Aggregate::CountDistinct)) {
                    out.insert("reduce.ungrouped.null-on-empty-aggregate".to_string());
                }
            }
            Relation::Map(m) => {
                if m.limit().is_some() || m.offset().is_some() {
                    out.insert("map.limit-or-offset".to_string());
                }
            }
            Relation::Join(j) => {
                let (kind, on) = match j.operator() {
                    JoinOperator::LeftOuter(e) => ("left", Some(e)),
                    JoinOperator::RightOuter(e) => ("right", Some(e)),
                    JoinOperator::FullOuter(e) => ("full", Some(e)),
                    JoinOperator::Inner(_) => ("inner", None),
                    JoinOperator::Cross => ("cross", None),
                };
                out.insert(format!("join.{kind}"));
                fn has_reduce_below(r: &Relation) -> bool {
                    matches!(r, Relation::Reduce(_)) || r.inputs().iter().any(|i| has_reduce_below(i))
                }
                if has_reduce_below(j.left()) || has_reduce_below(j.right()) {
                    out.insert("join.over-reduce".to_string());
                }
                // joins of two relations over protected tables whose ON clause does not force the same privacy unit
                // (the privacy-unit rewriting adds the unit equality, i.e. changes what the join returns), and outer
                // joins that preserve a side without protected tables (its unmatched rows have no unit)
                let (lp, rp) = (has_protected_table(j.left()), has_protected_table(j.right()));
                let on_expr = match j.operator() {
                    JoinOperator::Inner(e) | JoinOperator::LeftOuter(e) | JoinOperator::RightOuter(e) | JoinOperator::FullOuter(e) => Some(e),
                    JoinOperator::Cross => None,
                };
                if lp && rp && !on_expr.map_or(false, |e| on_implies_same_unit(e, j.left(), j.right())) {
                    out.insert(format!("join.{kind}.cross-unit"));
                }
                let public_preserved = match kind {
                    "left" => !lp && rp,
                    "right" => lp && !rp,
                    "full" => lp != rp,
                    _ => false,
                };
                if public_preserved {
                    out.insert(format!("join.{kind}.public-side-preserved"));
                }
                if let Some(on) = on {
                    if equates_a_unique_column(on, j.left(), j.right()) {
                        out.insert(format!("join.{kind}.on-unique-key"));
                    }
                }
            }
            _ => {}
        }
        for i in r.inputs() {
            walk(i, out);
        }
    }
    walk(r, &mut out);
    out.into_iter().collect()
}

/// signature of a violation: the per-query one when it is a known finding, else the first known
/// `kind @feature`, else the per-query one (a new violation)
pub fn resolve(kind: &str, sql: &str, feats: &[String], known: &BTreeSet<String>) -> String {
    let per_query = format!("{kind} :: {sql}");
    if known.contains(&per_query) {
        return per_query;
    }
    for f in feats {
        let s = format!("{kind} @{f}");
        if known.contains(&s) {
            return s;
        }
    }
    per_query
}

pub fn open_known(property: &str) -> BTreeSet<String> {
    crate::common::load_findings().into_iter().filter(|f| f.property == property && f.status == "open").map(|f| f.signature).collect()
}
