//! C04 — grouping keys are released only if public or above the tau threshold.
//! Fault-style enumeration of the answers of the random source: for every grouped DP query with a
//! private key, every database instance and every random script within the deviation bound, the
//! rewritten relation is materialised node by node and the key-release pipeline is observed:
//! contribution-limited (key, unit) table, exact unit count per key, noisy count, threshold, keys.
use crate::common::*;
use crate::dpchecks::{compile_dp_with, fill, new_engine, weighted_privacy_unit, CompileOutcome, Compiled, DpQuery};
use crate::sqlite::{Cell, Table};
use crate::world::{show_db, Db, World};
use qrlew::data_type::DataTyped;
use qrlew::differential_privacy::DpParameters;
use qrlew::relation::Variant as _;
use serde_json::json;
use std::collections::{BTreeMap, BTreeSet};

fn c04_queries(tier: Tier) -> Vec<DpQuery> {
    let u: &[&'static str] = &["users"];
    let o: &[&'static str] = &["users", "orders"];
    let mk = |sql: &str, t: &[&'static str], tags: &[&'static str]| DpQuery { sql: sql.to_string(), tables: t.to_vec(), tags: tags.to_vec() };
    let mut v = vec![
        mk("SELECT age, count(*) AS c FROM users GROUP BY age", u, &["private-key"]),
        mk("SELECT city, age, count(*) AS c FROM users GROUP BY city, age", u, &["mixed-keys"]),
        mk("SELECT age > 18 AS old, count(*) AS c FROM users GROUP BY age > 18", u, &["computed-key"]),
        mk("SELECT user_id, sum(amount) AS s FROM orders GROUP BY user_id", o, &["private-key", "fk-path"]),
        mk("SELECT city, count(*) AS c FROM users GROUP BY city", u, &["public-key"]),
        mk("SELECT amount, count(*) AS c FROM orders GROUP BY amount", o, &["private-key", "nullable-key", "fk-path"]),
    ];
    if tier == Tier::Thorough {
        v.push(mk("SELECT id, age, count(*) AS c FROM users GROUP BY id, age", u, &["two-private-keys"]));
        v.push(mk("SELECT age, sum(id) AS s FROM users WHERE city = 'A' GROUP BY age", u, &["private-key", "filter"]));
    }
    v
}

/// ground truth written by hand per query: key columns (in the order of the count node) and the
/// number of distinct privacy units holding the key in the database, for the default (foreign-key
/// path) and the direct weighted privacy-unit definitions
fn truth_sql(sql: &str, weighted: bool) -> Option<&'static str> {
    Some(match (sql, weighted) {
        ("SELECT age, count(*) AS c FROM users GROUP BY age", _) => "SELECT age, count(DISTINCT id) FROM users GROUP BY age",
        ("SELECT city, age, count(*) AS c FROM users GROUP BY city, age", _) => "SELECT age, count(DISTINCT id) FROM users GROUP BY age",
        ("SELECT user_id, sum(amount) AS s FROM orders GROUP BY user_id", false) => "SELECT o.user_id, count(DISTINCT u.id) FROM orders o JOIN users u ON o.user_id = u.id GROUP BY o.user_id",
        ("SELECT user_id, sum(amount) AS s FROM orders GROUP BY user_id", true) => "SELECT user_id, count(DISTINCT user_id) FROM orders GROUP BY user_id",
        ("SELECT amount, count(*) AS c FROM orders GROUP BY amount", false) => "SELECT o.amount, count(DISTINCT u.id) FROM orders o JOIN users u ON o.user_id = u.id GROUP BY o.amount",
        ("SELECT amount, count(*) AS c FROM orders GROUP BY amount", true) => "SELECT amount, count(DISTINCT user_id) FROM orders GROUP BY amount",
        ("SELECT id, age, count(*) AS c FROM users GROUP BY id, age", _) => "SELECT id, age, count(DISTINCT id) FROM users GROUP BY id, age",
        ("SELECT age, sum(id) AS s FROM users WHERE city = 'A' GROUP BY age", _) => "SELECT age, count(DISTINCT id) FROM users WHERE city = 'A' GROUP BY age",
        ("SELECT user_id, amount, count(*) AS c FROM orders GROUP BY user_id, amount", _) => "SELECT o.user_id, o.amount, count(DISTINCT u.id) FROM orders o JOIN users u ON o.user_id = u.id GROUP BY o.user_id, o.amount",
        ("SELECT amount, sum(amount) AS s FROM orders GROUP BY amount", _) => "SELECT o.amount, count(DISTINCT u.id) FROM orders o JOIN users u ON o.user_id = u.id GROUP BY o.amount",
        ("SELECT id, amount, count(*) AS c FROM orders GROUP BY id, amount", _) => "SELECT o.id, o.amount, count(DISTINCT u.id) FROM orders o JOIN users u ON o.user_id = u.id GROUP BY o.id, o.amount",
        _ => return None,
    })
}

fn key(row: &[Cell], idx: &[usize]) -> String {
    let mut v: Vec<String> = idx.iter().map(|i| row[*i].show()).collect();
    v.sort();
    v.join("|")
}

struct Pipeline {
    /// node names
    limit_node: String,
    count_node: String,
    noise_node: String,
    filter_node: String,
    tau: f64,
    cu: f64,
}

fn find_node<'a>(r: &'a qrlew::relation::Relation, name: &str) -> Option<&'a qrlew::relation::Relation> {
    if r.name() == name {
        return Some(r);
    }
    r.inputs().into_iter().find_map(|i| find_node(i, name))
}

/// The key-release pipeline of the rewritten relation: the threshold filter, the noise map feeding it, the Reduce
/// that counts the units per key and THE RELATION THAT REDUCE READS — the (key, unit) table, whether or not the IR
/// reader recognises a contribution limit in front of it (Cu is then the parameter handed to the compiler).
fn pipeline(c: &Compiled) -> Option<Pipeline> {
    let t = c.ir.thresholds.first()?;
    let n = c.ir.noised.iter().find(|n| n.column == t.column)?;
    let count = find_node(&c.rewritten, &n.input_node)?;
    // below the count: the first relation (through projections that only rename) that still names the unit column
    let mut cur: &qrlew::relation::Relation = count.inputs().first().copied()?;
    loop {
        if cur.schema().iter().any(|f| f.name() == "_PRIVACY_UNIT_") {
            break;
        }
        match cur {
            qrlew::relation::Relation::Map(m) => cur = m.input(),
            _ => return None,
        }
    }
    let limit_node = cur.name().to_string();
    let cu = c.ir.limits.first().map(|l| l.cu).unwrap_or(c.dp.max_privacy_unit_groups as f64);
    Some(Pipeline { limit_node, count_node: n.input_node.clone(), noise_node: n.node.clone(), filter_node: t.node.clone(), tau: t.tau, cu })
}

fn scripts(k: usize, deviations: usize) -> Vec<Vec<f64>> {
    let full = [0.5, 0.25, 1e-300, 0.75, 0.1];
    let alphabet: &[f64] = if deviations >= 2 { &full } else { &full[1..4] };
    let alphabet = alphabet.to_vec();
    let mut out = vec![vec![]];
    for i in 0..k {
        for a in alphabet.iter().copied() {
            let mut s = vec![1.0; i + 1];
            s[i] = a;
            out.push(s);
        }
    }
    // a strongly NEGATIVE draw needs two deviations in adjacent positions (u1 = 1e-300 for the radius, u2 = 0.5 for
    // the sign of the Box-Muller pair): that one pair is part of the alphabet at every bound
    for i in 0..k.saturating_sub(1) {
        let mut s = vec![1.0; i + 2];
        s[i] = 1e-300;
        s[i + 1] = 0.5;
        out.push(s);
    }
    if deviations >= 2 {
        for i in 0..k {
            for j in (i + 1)..k {
                for a in alphabet.iter().copied() {
                    for b in alphabet.iter().copied() {
                        let mut s = vec![1.0; j + 1];
                        s[i] = a;
                        s[j] = b;
                        out.push(s);
                    }
                }
            }
        }
    }
    out
}

pub fn run(ctx: &Ctx) -> Report {
    let level = "fault_enumeration";
    let mut head = Report::new(level);
    if let Err(e) = crate::sqlite::self_test() {
        head.machinery_errors.push(e);
        return head;
    }
    let world = World::compact();
    let relations = world.relations();
    let mut configs: Vec<Compiled> = vec![];
    for q in c04_queries(ctx.tier) {
        for (cu, weighted) in [(1u64, false), (2, false), (2, true), (5, true)] {
            if ctx.tier == Tier::Quick && ((weighted && cu == 5) || (!weighted && cu == 2 && q.tables.len() > 1)) {
                continue;
            }
            if weighted && q.tables.contains(&"users") && q.tables.len() == 1 && ctx.tier == Tier::Quick {
                continue;
            }
            // eps = 1: tau is far above any count of the tiny databases (a key is released only by a large positive
            // draw); eps = 80 (Cu = 1, foreign-key path): tau is about 1.4, so a key held by two units is released
            // without noise and must be suppressed by a large negative draw
            for eps in [1.0, 80.0] {
                if eps != 1.0 && (weighted || cu != 1) {
                    continue;
                }
                let name = format!("eps={eps},delta=0.001,cu={cu},tau_share=0.5,pu={}", if weighted { "direct-weighted" } else { "fk-path" });
                let dp = DpParameters::new(eps, 1e-3, 0.5, 100.0, 1.0, cu);
                if !ctx.wants(&format!("{} [{}]", q.sql, name)) {
                    continue;
                }
                let pu = if weighted { weighted_privacy_unit() } else { crate::c18::privacy_unit() };
                match compile_dp_with(&q, &name, &dp, &relations, pu) {
                    CompileOutcome::Ok(c) => configs.push(c),
                    CompileOutcome::Refused(e) => head.reach("refused", &format!("{} :: {}", q.sql, e.chars().take(60).collect::<String>())),
                    CompileOutcome::Panic(p) => head.reach("panic_sites(left to C18)", &p.site()),
                }
            }
        }
    }
    head.set("configs", configs.len() as u64);
    explore(ctx, &mut head, &world, configs, None);
    // second world: a unit can hold three groups (three orders), key columns of several declared types
    for variant in ["declared", "narrow-int", "unbounded"] {
        let w = key_world(variant);
        let relations = w.relations();
        let mut configs: Vec<Compiled> = vec![];
        for q in key_world_queries() {
            for (cu, share) in [(1u64, 0.5), (2, 0.5), (1, 0.2), (2, 0.8)] {
                // the uneven shares on the declared types only
                if share != 0.5 && variant != "declared" {
                    continue;
                }
                let name = format!("eps=1,delta=0.001,cu={cu},tau_share={share},pu=fk-path,types={variant}");
                if !ctx.wants(&format!("{} [{}]", q.sql, name)) {
                    continue;
                }
                let dp = DpParameters::new(1.0, 1e-3, share, 100.0, 1.0, cu);
                match compile_dp_with(&q, &name, &dp, &relations, crate::c18::privacy_unit()) {
                    CompileOutcome::Ok(c) => configs.push(c),
                    CompileOutcome::Refused(e) => head.reach("refused", &format!("{} :: {}", q.sql, e.chars().take(60).collect::<String>())),
                    CompileOutcome::Panic(p) => head.reach("panic_sites(left to C18)", &p.site()),
                }
            }
        }
        head.add_count("configs_key_world", configs.len() as u64);
        explore(ctx, &mut head, &w, configs, Some(5));
    }
    head.rule = "grouped DP queries (private key, mixed public/private keys, computed key, key along the foreign-key path, public key) x Cu in {1,2,5} x privacy unit given by the foreign-key path or directly with a per-row weight x ALL database instances of the compact world x ALL random scripts within the deviation bound (default answer 1.0 = zero noise; alphabet {0.25, 1e-300, 0.75} (thorough {0.5, 0.25, 1e-300, 0.75, 0.1}) at <= 1 (thorough 2) of the first K draws, K = draws of one materialisation, <= 10); node-by-node materialisation; oracle: (1) a key passes the filter only if its noisy count in this execution > the tau literal, and every released row's private key passed; (3) after the contribution limit no unit holds more than Cu groups, for every script; (4) the count fed to the noise = distinct units holding the key in the limited table, and <= the number of distinct units holding the key in the database (ground truth by a hand-written SQL query per subject); (5) with zero noise no singleton key is released. non-trivial = executions in which some key exceeds tau".into();
    head.assumptions = vec!["tau and sigma_count against the closed forms are checked by C03".into(), "scripts deviate in the first K <= 10 draws only".into()];
    head
}


/// every database of `world` x every random script within the deviation bound, for every configuration
fn explore(ctx: &Ctx, head: &mut Report, world: &World, configs: Vec<Compiled>, total_rows: Option<usize>) {
    let level = "fault_enumeration";
    let deviations = ctx.tier.pick(1usize, 2usize);
    let mut by_tables: BTreeMap<Vec<&'static str>, Vec<Compiled>> = BTreeMap::new();
    for c in configs {
        by_tables.entry(c.query.tables.clone()).or_default().push(c);
    }
    let tier = ctx.tier;
    for (tables, cs) in by_tables {
        let n = total_rows.unwrap_or(match (tier, tables.len()) {
            (_, 1) => 2,
            (Tier::Quick, _) => 3,
            (Tier::Thorough, _) => 3,
        });
        let dbs = world.databases(&tables, n);
        head.reach("databases_per_table_set", &format!("{}:{}", tables.join("+"), dbs.len()));
        let chunk = (dbs.len() / 48).max(1);
        let chunks: Vec<Vec<Db>> = dbs.chunks(chunk).map(|c| c.to_vec()).collect();
        
        let cs = &cs;
        let part = par_reports(chunks, level, move |dbs, r| {
            let e = new_engine(world);
            e.conn.set_prepared_statement_cache_capacity(512);
            for c in cs.iter() {
                let case_id = format!("{} [{}]", c.query.sql, c.dp_name);
                let pl = pipeline(c);
                // the threshold literal is at least the tau required by the share of (epsilon, delta) reserved for key
                // release (closed form re-implemented in dpchecks.rs), whatever the share
                if let Some(p) = &pl {
                    let (es, ds) = (c.dp.epsilon * c.dp.tau_thresholding_share, c.dp.delta * c.dp.tau_thresholding_share);
                    let required = crate::dpchecks::ref_tau(es, ds, p.cu);
                    if r.extra.get("tau_checked").and_then(|m| m.get(&case_id)).is_none() {
                        r.reach("tau_checked", &case_id);
                        if p.tau < required * (1.0 - 1e-6) {
                            r.violation(
                                format!("threshold-below-required-tau tags={}", c.query.tags.join("+")),
                                &case_id,
                                json!({"query": c.query.sql, "dp_parameters": c.dp_name, "tau_in_the_query": p.tau, "tau_required_by_the_key_release_share": required, "epsilon_share": es, "delta_share": ds, "cu": p.cu}),
                            );
                        }
                    }
                }
                let plan = match e.plan(&c.rewritten) {
                    Ok(p) => p,
                    Err(err) => {
                        r.reach("materialisation_errors", &err.chars().take(80).collect::<String>());
                        continue;
                    }
                };
                // output key columns and which of them have a publicly declared finite value set
                let out_fields: Vec<(String, bool)> = c.original.schema().iter().map(|f| (f.name().to_string(), f.data_type().all_values())).collect();
                let tagstr = c.query.tags.join("+");
                for db in dbs.iter() {
                    fill(&e, world, db);
                    // default script: how many draws does one materialisation make?
                    e.set_script(vec![], None);
                    if e.run_plan(&plan, Some(&[])).is_err() {
                        continue;
                    }
                    let k = e.random_calls().min(tier.pick(10, 8));
                    for script in scripts(k, deviations) {
                        r.evaluations += 1;
                        e.set_script(script.clone(), None);
                        let want: Vec<String> = pl.as_ref().map(|p| vec![p.limit_node.clone(), p.count_node.clone(), p.noise_node.clone(), p.filter_node.clone()]).unwrap_or_default();
                        let (fin, nodes) = match e.run_plan(&plan, Some(&want)) {
                            Ok(x) => x,
                            Err(_) => continue,
                        };
                        let detail = |what: &str, extra: serde_json::Value| json!({"query": c.query.sql, "dp_parameters": c.dp_name, "what": what, "random_script": script, "database": show_db(db), "released": fin.show(), "observed": extra});
                        let pl = match &pl {
                            Some(p) => p,
                            None => {
                                // no thresholding in this rewriting: every key column must be public
                                let agg_like = |n: &str| c.query.sql.contains(&format!(" AS {n}"));
                                for (name, public) in &out_fields {
                                    if !agg_like(name) && !public && !fin.rows.is_empty() {
                                        r.violation(format!("private-key-released-without-threshold tags={tagstr}"), &case_id, detail("a key column without public values is released and the rewriting has no threshold", json!(name)));
                                    }
                                }
                                continue;
                            }
                        };
                        let (limited, counts, noisy, passed) = match (nodes.get(&pl.limit_node), nodes.get(&pl.count_node), nodes.get(&pl.noise_node), nodes.get(&pl.filter_node)) {
                            (Some(a), Some(b), Some(c2), Some(d)) => (a, b, c2, d),
                            _ => {
                                r.machinery_errors.push(format!("C04: pipeline nodes not materialised for {case_id}"));
                                continue;
                            }
                        };
                        // (3) every unit holds at most Cu groups in the limited table, whatever ranking the draws induce
                        if limited.cols.iter().position(|x| x == "_PRIVACY_UNIT_").is_none() {
                            r.machinery_errors.push(format!("C04: the (key, unit) table of {case_id} has no unit column"));
                        }
                        if let Some(ui) = limited.cols.iter().position(|x| x == "_PRIVACY_UNIT_") {
                            let mut per_unit: BTreeMap<String, BTreeSet<String>> = BTreeMap::new();
                            let kidx: Vec<usize> = (0..limited.cols.len()).filter(|i| *i != ui && !limited.cols[*i].starts_with('_')).collect();
                            for row in &limited.rows {
                                per_unit.entry(row[ui].show()).or_default().insert(key(row, &kidx));
                            }
                            if per_unit.values().any(|g| g.len() > 1) {
                                r.reach("reach", "unit-in-several-groups-after-limit");
                            }
                            if let Some((u, g)) = per_unit.iter().find(|(_, g)| g.len() as f64 > pl.cu) {
                                r.violation(format!("contribution-limit-exceeded tags={tagstr}"), &case_id, detail("a unit holds more groups than Cu after the contribution limit", json!({"unit": u, "groups": g, "cu": pl.cu, "limited_table": limited.show()})));
                            }
                            // (4) pre-noise count of a key = number of distinct units holding it in the limited table
                            let ci = counts.cols.iter().position(|x| x.contains("COUNT_DISTINCT"));
                            if let Some(ci) = ci {
                                let ckidx: Vec<usize> = (0..counts.cols.len()).filter(|i| *i != ci).collect();
                                for row in &counts.rows {
                                    let kk = key(row, &ckidx);
                                    let units: BTreeSet<String> = limited.rows.iter().filter(|l| key(l, &kidx) == kk).map(|l| l[ui].show()).collect();
                                    if row[ci].num() != Some(units.len() as f64) {
                                        r.violation(format!("unit-count-wrong tags={tagstr}"), &case_id, detail("the count fed to the threshold is not the number of distinct units holding the key", json!({"key": kk, "count": row[ci].show(), "units": units, "limited_table": limited.show()})));
                                    }
                                    if units.len() == 1 {
                                        r.reach("reach", "singleton-key");
                                    }
                                }
                            }
                        }
                        // (4') independent ground truth: the count fed to the noise never exceeds the number of
                        // distinct units that hold the key in the database (hand-written SQL per query)
                        if let Some(tsql) = truth_sql(&c.query.sql, c.dp_name.ends_with("direct-weighted")) {
                            if let (Ok(truth), Some(ci)) = (e.query(tsql), counts.cols.iter().position(|x| x.contains("COUNT_DISTINCT"))) {
                                let ckidx: Vec<usize> = (0..counts.cols.len()).filter(|i| *i != ci).collect();
                                let tk: Vec<usize> = (0..truth.cols.len() - 1).collect();
                                let tmap: BTreeMap<String, f64> = truth.rows.iter().map(|row| (key(row, &tk), row[truth.cols.len() - 1].num().unwrap_or(0.0))).collect();
                                r.add_count("ground_truth_comparisons", counts.rows.len() as u64);
                                for row in &counts.rows {
                                    let kk = key(row, &ckidx);
                                    let t = tmap.get(&kk).copied().unwrap_or(0.0);
                                    if row[ci].num().map_or(true, |x| x > t) {
                                        r.violation(format!("unit-count-above-ground-truth tags={tagstr}"), &case_id, detail("the count fed to the threshold exceeds the number of distinct privacy units holding the key in the database", json!({"key": kk, "count": row[ci].show(), "distinct_units_in_database": t, "ground_truth_sql": tsql, "limited_table": limited.show()})));
                                    }
                                }
                            } else {
                                r.machinery_errors.push(format!("C04: ground truth not computable for {case_id}"));
                            }
                        }
                        // (1) a key passes the filter only if its noisy count in THIS execution exceeds tau
                        let ni = noisy.cols.iter().position(|x| x.contains("COUNT_DISTINCT"));
                        if let Some(ni) = ni {
                            let nk: Vec<usize> = (0..noisy.cols.len()).filter(|i| *i != ni).collect();
                            let pk: Vec<usize> = (0..passed.cols.len()).filter(|i| !passed.cols[*i].contains("COUNT_DISTINCT")).collect();
                            let above: BTreeSet<String> = noisy.rows.iter().filter(|row| row[ni].num().map_or(false, |x| x > pl.tau)).map(|row| key(row, &nk)).collect();
                            for row in &passed.rows {
                                let kk = key(row, &pk);
                                if !above.contains(&kk) {
                                    r.violation(format!("key-below-threshold-passes tags={tagstr}"), &case_id, detail("a key passes the threshold filter although its noisy count is not above tau", json!({"key": kk, "tau": pl.tau, "noisy_counts": noisy.show(), "passed": passed.show()})));
                                }
                            }
                            if !above.is_empty() {
                                r.reach("reach", "key-released-by-noise");
                                r.distinct_nontrivial += 1;
                                if r.samples.is_empty() {
                                    r.sample(json!({"query": c.query.sql, "dp_parameters": c.dp_name, "database": show_db(db), "random_script": script, "limited_key_unit_table": limited.show(), "unit_counts": counts.show(), "noisy_counts": noisy.show(), "tau": pl.tau, "passed": passed.show(), "released": fin.show()}));
                                }
                            }
                            // the final output: the private part of every released key passed the filter
                            let passed_keys: Vec<Vec<String>> = passed.rows.iter().map(|row| pk.iter().map(|i| row[*i].show()).collect()).collect();
                            for frow in &fin.rows {
                                let cells: Vec<String> = frow.iter().map(|c| c.show()).collect();
                                let ok = passed_keys.iter().any(|p| p.iter().all(|v| cells.contains(v) || private_component_is_derived(v)));
                                if !ok {
                                    r.violation(format!("released-key-did-not-pass-threshold tags={tagstr}"), &case_id, detail("a released row carries a private key that did not pass the threshold in this execution", json!({"row": cells, "passed": passed.show(), "tau": pl.tau})));
                                    break;
                                }
                            }
                            // (5) with zero noise a key held by a single unit is never released
                            if script.is_empty() {
                                let ci = counts.cols.iter().position(|x| x.contains("COUNT_DISTINCT"));
                                if let Some(ci) = ci {
                                    if counts.rows.iter().any(|row| row[ci].num() == Some(1.0)) && !passed.rows.is_empty() && pl.tau >= 1.0 {
                                        let ckidx: Vec<usize> = (0..counts.cols.len()).filter(|i| *i != ci).collect();
                                        for row in counts.rows.iter().filter(|row| row[ci].num() == Some(1.0)) {
                                            if passed.rows.iter().any(|p| key(p, &pk) == key(row, &ckidx)) {
                                                r.violation(format!("singleton-key-released-deterministically tags={tagstr}"), &case_id, detail("a key held by one unit is released with zero noise", json!({"key": key(row, &ckidx), "tau": pl.tau})));
                                            }
                                        }
                                    }
                                }
                            } else if passed.rows.is_empty() && !counts.rows.is_empty() {
                                r.reach("reach", "key-suppressed");
                            }
                            if let Some(ci) = counts.cols.iter().position(|x| x.contains("COUNT_DISTINCT")) {
                                if counts.rows.iter().any(|row| row[ci].num().map_or(false, |x| x > pl.tau)) && passed.rows.len() < counts.rows.iter().filter(|row| row[ci].num().map_or(false, |x| x > pl.tau)).count() {
                                    r.reach("reach", "key-above-tau-suppressed-by-negative-noise");
                                }
                            }
                        }
                    }
                }
                e.drop_plan(&plan);
            }
        });
        head.merge(part);
    }
}

/// users(id {1,2}, age {18}, city {'A'}) <= 2 rows; orders(id {1,2,3} unique, user_id {1,2}, amount {0,5,10}) <= 3 rows:
/// a unit can own three orders, i.e. three groups of (user_id, amount) or (id, amount). `variant` sets the declared
/// types of the key columns: "declared" (as E-world), "narrow-int" (user_id int[1,2], id int[1,3], age int{18}),
/// "unbounded" (amount float, city text without value set, user_id int[1,2])
fn key_world(variant: &str) -> World {
    use crate::sqlite::Cell;
    use qrlew::data_type::DataType;
    let mut w = World::standard();
    for t in w.tables.iter_mut() {
        match t.name {
            "users" => {
                t.max_rows = 2;
                for c in t.cols.iter_mut() {
                    match c.name {
                        "id" => c.domain = vec![Cell::Int(1), Cell::Int(2)],
                        "age" => {
                            c.domain = vec![Cell::Int(18)];
                            if variant == "narrow-int" {
                                c.data_type = DataType::integer_value(18);
                            }
                        }
                        _ => {
                            c.domain = vec![Cell::Text("A".into())];
                            if variant == "unbounded" {
                                c.data_type = DataType::text();
                            }
                        }
                    }
                }
            }
            "orders" => {
                t.max_rows = 3;
                for c in t.cols.iter_mut() {
                    match c.name {
                        "id" => c.domain = vec![Cell::Int(1), Cell::Int(2), Cell::Int(3)],
                        "user_id" => {
                            c.domain = vec![Cell::Int(1), Cell::Int(2)];
                            if variant != "declared" {
                                c.data_type = DataType::integer_interval(1, 2);
                            }
                        }
                        _ => {
                            c.domain = vec![Cell::Real(0.0), Cell::Real(5.0), Cell::Real(10.0)];
                            c.data_type = if variant == "unbounded" { DataType::float() } else { DataType::float_interval(0.0, 10.0) };
                        }
                    }
                }
            }
            _ => {}
        }
    }
    w
}

fn key_world_queries() -> Vec<DpQuery> {
    let o: &[&'static str] = &["users", "orders"];
    let mk = |sql: &str, tags: &[&'static str]| DpQuery { sql: sql.to_string(), tables: o.to_vec(), tags: tags.to_vec() };
    vec![
        mk("SELECT user_id, amount, count(*) AS c FROM orders GROUP BY user_id, amount", &["two-private-keys", "fk-path", "key-world"]),
        mk("SELECT amount, sum(amount) AS s FROM orders GROUP BY amount", &["private-key", "fk-path", "key-world"]),
        mk("SELECT id, amount, count(*) AS c FROM orders GROUP BY id, amount", &["two-private-keys", "unique-key", "fk-path", "key-world"]),
        mk("SELECT u.city, o.amount, count(*) AS c FROM users u JOIN orders o ON u.id = o.user_id GROUP BY u.city, o.amount", &["two-private-keys", "join", "key-world"]),
    ]
}

/// computed keys (e.g. `age > 18`) are released as derived values (0/1): their private component is
/// matched by value only when the passed table holds the same derived value
fn private_component_is_derived(_v: &str) -> bool {
    false
}

#[allow(dead_code)]
fn unused(_t: &Table) {}
