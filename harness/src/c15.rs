//! C15 — name resolution: exact or unique-suffix match, never an arbitrary candidate.
//! (a) explicit-state search (stateright) over insert histories of the real `Hierarchy<u8>` with all
//!     lookups checked in every state against a reference path map;
//! (b) SQL queries with clashing column names (see c15b in sqlchecks.rs).
use crate::common::*;
use qrlew::builder::With;
use qrlew::hierarchy::Hierarchy;
use serde_json::json;
use stateright::{Checker, Model, Property};
use std::sync::atomic::{AtomicU64, Ordering};
use std::sync::Mutex;

type PathV = Vec<String>;

fn all_paths(max_len: usize, min_len: usize) -> Vec<PathV> {
    let mut out: Vec<PathV> = vec![];
    let mut level: Vec<PathV> = vec![vec![]];
    if min_len == 0 {
        out.push(vec![]);
    }
    for l in 1..=max_len {
        let mut next = vec![];
        for p in &level {
            for c in ["a", "b"] {
                let mut q = p.clone();
                q.push(c.to_string());
                next.push(q);
            }
        }
        if l >= min_len {
            out.extend(next.iter().cloned());
        }
        level = next;
    }
    out
}

/// the lookup rule of the property, spelled out literally
fn ref_lookup<'a>(entries: &'a [(PathV, u8)], path: &[String]) -> Option<(&'a PathV, u8)> {
    if let Some((p, v)) = entries.iter().find(|(p, _)| p.as_slice() == path) {
        return Some((p, *v));
    }
    let agree = |e: &PathV| {
        let n = e.len().min(path.len());
        (0..n).all(|i| e[e.len() - 1 - i] == path[path.len() - 1 - i])
    };
    let cands: Vec<&(PathV, u8)> = entries.iter().filter(|(p, _)| agree(p)).collect();
    if cands.len() == 1 {
        Some((&cands[0].0, cands[0].1))
    } else {
        None
    }
}

#[derive(Clone, Debug, Hash, PartialEq, Eq)]
struct HState {
    h: Hierarchy<u8>,
    rf: Vec<(PathV, u8)>,
    steps: u8,
}

#[derive(Clone, Debug, PartialEq)]
enum HAction {
    With(usize),
    Extend(usize),
    Insert2(usize, usize),
    Prepend(usize),
    Collect,
}

struct HModel {
    paths: Vec<PathV>,
    lookups: Vec<PathV>,
    max_entries: usize,
    transitions: AtomicU64,
    lookups_checked: AtomicU64,
    reach_exact: AtomicU64,
    reach_suffix: AtomicU64,
    reach_ambiguous: AtomicU64,
    reach_longer_than_entry: AtomicU64,
    reach_nothing: AtomicU64,
    violations: Mutex<Vec<(String, serde_json::Value)>>,
    /// one state of this run, written out (entries and what every kind of lookup returned)
    sample: Mutex<Option<serde_json::Value>>,
}

fn set(rf: &mut Vec<(PathV, u8)>, p: PathV, v: u8) {
    if let Some(e) = rf.iter_mut().find(|(q, _)| *q == p) {
        e.1 = v;
    } else {
        rf.push((p, v));
    }
    rf.sort();
}

impl HModel {
    fn check_state(&self, s: &HState, how: &str) {
        // the stored entries
        let entries: Vec<(PathV, u8)> = s.h.iter().map(|(p, v)| (p.clone(), *v)).collect();
        if entries != s.rf {
            self.push("hierarchy entries-differ-from-reference", s, how, json!({"entries": format!("{:?}", entries)}));
        }
        if s.rf.len() == 3 && s.rf.iter().any(|(p, _)| p.len() == 1) && s.rf.iter().any(|(p, _)| p.len() >= 2) {
            let mut slot = self.sample.lock().unwrap();
            if slot.is_none() {
                let show = |p: &PathV| p.join(".");
                let looked: Vec<String> = self.lookups.iter().take(14).map(|l| format!("{} -> library {:?} / reference {:?}", show(l), guarded(|| s.h.get(l).cloned()).ok().flatten(), ref_lookup(&s.rf, l).map(|x| x.1))).collect();
                *slot = Some(json!({"reached_by": how, "entries": s.rf.iter().map(|(p, v)| format!("{}->{}", show(p), v)).collect::<Vec<_>>(), "lookups": looked}));
            }
        }
        for l in &self.lookups {
            self.lookups_checked.fetch_add(1, Ordering::Relaxed);
            let expected = ref_lookup(&s.rf, l);
            match &expected {
                Some((p, _)) if p.as_slice() == l.as_slice() => self.reach_exact.fetch_add(1, Ordering::Relaxed),
                Some((p, _)) if p.len() < l.len() => self.reach_longer_than_entry.fetch_add(1, Ordering::Relaxed),
                Some(_) => self.reach_suffix.fetch_add(1, Ordering::Relaxed),
                None => {
                    let n = s.rf.iter().filter(|(p, _)| {
                        let n = p.len().min(l.len());
                        (0..n).all(|i| p[p.len() - 1 - i] == l[l.len() - 1 - i])
                    }).count();
                    if n > 1 { self.reach_ambiguous.fetch_add(1, Ordering::Relaxed) } else { self.reach_nothing.fetch_add(1, Ordering::Relaxed) }
                }
            };
            let got = guarded(|| s.h.get(l).cloned());
            let got_kv = guarded(|| s.h.get_key_value(l).map(|(k, v)| (k.to_vec(), *v)));
            // Index panics when the lookup yields nothing. Unwinding is slow and serialised across
            // threads, so the "panic <=> None" half is exercised only in states with <= 2 entries;
            // the "Some => same value" half in every state.
            let got_idx = if expected.is_some() || (s.rf.len() <= 2 && std::env::var("QV_NOIDX").is_err()) {
                guarded(|| s.h[l.clone()])
            } else {
                Err(Panic { location: "skipped".into(), message: String::new() })
            };
            let exp_v = expected.as_ref().map(|(_, v)| *v);
            let exp_kv = expected.as_ref().map(|(p, v)| ((*p).clone(), *v));
            let kind = match &expected {
                Some((p, _)) if p.as_slice() == l.as_slice() => "exact",
                Some(_) => "unique-suffix",
                None => "none-or-ambiguous",
            };
            if got.as_ref().ok() != Some(&exp_v) {
                self.push(&format!("hierarchy get expected={kind}"), s, how, json!({"lookup": l, "expected": format!("{:?}", exp_kv), "got": format!("{:?}", got.map_err(|p| p.site()))}));
            }
            if got_kv.as_ref().ok() != Some(&exp_kv) {
                self.push(&format!("hierarchy get_key_value expected={kind}"), s, how, json!({"lookup": l, "expected": format!("{:?}", exp_kv), "got": format!("{:?}", got_kv.map_err(|p| p.site()))}));
            }
            let idx_ok = match (&got_idx, exp_v) {
                (Ok(v), Some(e)) => *v == e,
                (Err(_), None) => true,
                _ => false,
            };
            if !idx_ok {
                self.push(&format!("hierarchy index expected={kind}"), s, how, json!({"lookup": l, "expected": format!("{:?}", exp_kv), "got": format!("{:?}", got_idx.map_err(|p| p.site()))}));
            }
        }
    }
    fn push(&self, sig: &str, s: &HState, how: &str, mut detail: serde_json::Value) {
        let mut v = self.violations.lock().unwrap();
        if v.len() < 200 {
            detail["entries"] = json!(s.rf.iter().map(|(p, v)| format!("{}->{}", p.join("."), v)).collect::<Vec<_>>());
            detail["reached_by"] = json!(how);
            v.push((sig.to_string(), detail));
        }
    }
}

impl Model for HModel {
    type State = HState;
    type Action = HAction;

    fn init_states(&self) -> Vec<Self::State> {
        let s = HState { h: Hierarchy::empty(), rf: vec![], steps: 0 };
        self.check_state(&s, "init");
        vec![s]
    }

    fn actions(&self, s: &Self::State, actions: &mut Vec<Self::Action>) {
        // bounded histories: at most max_entries + 1 insertions (one more than the entries, so that
        // overwriting an existing path is explored too)
        if s.rf.len() < self.max_entries && (s.steps as usize) <= self.max_entries {
            for i in 0..self.paths.len() {
                actions.push(HAction::With(i));
                actions.push(HAction::Extend(i));
            }
            if s.rf.len() + 2 <= self.max_entries && s.rf.is_empty() {
                for i in 0..self.paths.len() {
                    for j in (i + 1)..self.paths.len() {
                        actions.push(HAction::Insert2(i, j));
                    }
                }
            }
        }
        if !s.rf.is_empty() && s.rf.iter().all(|(p, _)| p.len() < 3) {
            actions.push(HAction::Prepend(0));
            actions.push(HAction::Prepend(1));
        }
        actions.push(HAction::Collect);
    }

    fn next_state(&self, last: &Self::State, action: Self::Action) -> Option<Self::State> {
        self.transitions.fetch_add(1, Ordering::Relaxed);
        let v = last.steps + 1;
        let mut rf = last.rf.clone();
        let h = match &action {
            HAction::With(i) => {
                set(&mut rf, self.paths[*i].clone(), v);
                last.h.clone().with([(self.paths[*i].clone(), v)])
            }
            HAction::Extend(i) => {
                set(&mut rf, self.paths[*i].clone(), v);
                let mut h = last.h.clone();
                h.extend([(self.paths[*i].clone(), v)]);
                h
            }
            HAction::Insert2(i, j) => {
                set(&mut rf, self.paths[*i].clone(), v);
                set(&mut rf, self.paths[*j].clone(), v + 1);
                Hierarchy::from([(self.paths[*i].clone(), v), (self.paths[*j].clone(), v + 1)])
            }
            HAction::Prepend(k) => {
                let head = vec![["a", "b"][*k].to_string()];
                rf = rf.into_iter().map(|(p, x)| (head.iter().cloned().chain(p.into_iter()).collect(), x)).collect();
                rf.sort();
                last.h.clone().prepend(&head)
            }
            HAction::Collect => last.h.clone().into_iter().collect(),
        };
        let s = HState { h, rf, steps: if matches!(action, HAction::Insert2(_, _)) { v + 1 } else if matches!(action, HAction::Collect | HAction::Prepend(_)) { last.steps } else { v } };
        self.check_state(&s, &format!("{:?}", action));
        Some(s)
    }

    fn properties(&self) -> Vec<Property<Self>> {
        vec![Property::always("explore-all", |_, _| true)]
    }
}

pub fn part_a(ctx: &Ctx, r: &mut Report) {
    if !ctx.wants("hierarchy") {
        return;
    }
    let m = HModel {
        paths: all_paths(3, ctx.tier.pick(1, 0)),
        lookups: all_paths(4, 0),
        max_entries: std::env::var("QV_C15_ENTRIES").ok().and_then(|s| s.parse().ok()).unwrap_or(ctx.tier.pick(3, 4)),
        transitions: AtomicU64::new(0),
        lookups_checked: AtomicU64::new(0),
        reach_exact: AtomicU64::new(0),
        reach_suffix: AtomicU64::new(0),
        reach_ambiguous: AtomicU64::new(0),
        reach_longer_than_entry: AtomicU64::new(0),
        reach_nothing: AtomicU64::new(0),
        violations: Mutex::new(vec![]),
        sample: Mutex::new(None),
    };
    let checker = m.checker().threads(std::env::var("QV_SR_THREADS").ok().and_then(|s| s.parse().ok()).unwrap_or(16)).spawn_bfs().join();
    let states = checker.unique_state_count() as u64;
    let m = checker.model();
    let transitions = m.transitions.load(Ordering::Relaxed);
    r.add_count("states", states);
    r.add_count("transitions", transitions);
    r.add_count("traces_validated_against_impl", transitions);
    r.evaluations += m.lookups_checked.load(Ordering::Relaxed);
    r.distinct_nontrivial += states;
    r.set(
        "hierarchy",
        json!({"states": states, "transitions": transitions, "max_depth": checker.max_depth(), "paths": m.paths.len(), "lookups_per_state": m.lookups.len(), "max_entries": m.max_entries,
               "lookups_checked": m.lookups_checked.load(Ordering::Relaxed),
               "reach": {"exact_hit": m.reach_exact.load(Ordering::Relaxed), "unique_suffix_hit": m.reach_suffix.load(Ordering::Relaxed),
                         "ambiguous": m.reach_ambiguous.load(Ordering::Relaxed), "lookup_longer_than_entry": m.reach_longer_than_entry.load(Ordering::Relaxed),
                         "nothing": m.reach_nothing.load(Ordering::Relaxed)}}),
    );
    for (sig, d) in m.violations.lock().unwrap().iter() {
        r.violation(sig.clone(), "hierarchy", d.clone());
    }
    let smp = m.sample.lock().unwrap().clone();
    if let Some(smp) = smp {
        r.sample(smp);
    }
}

pub fn run(ctx: &Ctx) -> Report {
    let mut r = Report::new("model_checking");
    part_a(ctx, &mut r);
    crate::sqlchecks::c15b(ctx, &mut r);
    r.rule = "(a) explicit-state BFS over insert histories (with / extend / from / prepend / collect) of the real Hierarchy<u8> over all paths of length <= 3 on {a,b} with <= 3 (thorough 4) entries; in every state all 31 lookup paths of length <= 4 through get, get_key_value and Index (panic <=> None) are compared with a reference that spells the rule out literally. (b) SQL queries with the same column name in two joined relations / aliases / CTEs shadowing tables: if SQLite reports an ambiguous column the compiler must not return a relation; if both accept, results agree. non-trivial = distinct states + ambiguous-name queries".into();
    r.assumptions = vec!["paths over a two-letter alphabet; longer paths and more entries are not explored".into()];
    r
}

