//! C06 — range propagation is sound for every function, aggregate and composed expression.
//! Exhaustive exploration of (function × argument boxes × grid points in the box).
use crate::common::*;
use crate::grids::*;
use crate::refm::*;
use qrlew::data_type::function::Function as _;
use qrlew::data_type::{value::Value, DataType};
use qrlew::expr::{aggregate::Aggregate, function::Function, Expr};
use serde_json::json;
use std::collections::BTreeMap;
use std::sync::Arc;

/// Every variant of the scalar function enumeration. The match is exhaustive on purpose: a new
/// variant breaks the build of the harness (exit 2) instead of being silently left unexplored.
pub fn all_functions() -> Vec<Function> {
    use Function::*;
    let list = vec![
        Opposite, Not, Plus, Minus, Multiply, Divide, Modulo, StringConcat, Gt, Lt, GtEq, LtEq, Eq,
        NotEq, And, Or, Xor, BitwiseOr, BitwiseAnd, BitwiseXor, Exp, Ln, Log, Abs, Sin, Cos, Sqrt,
        Pow, Case, Concat(1), Concat(2), Concat(3), CharLength, Lower, Upper, Md5, Position,
        Random(0), Pi, CastAsText, CastAsFloat, CastAsInteger, CastAsBoolean, CastAsDateTime,
        CastAsDate, CastAsTime, Least, Greatest, Rtrim, Ltrim, Substr, SubstrWithSize, Ceil, Floor,
        Round, Trunc, RegexpContains, RegexpExtract, RegexpReplace, Newid, Encode, Decode, Unhex,
        CurrentDate, CurrentTime, CurrentTimestamp, ExtractEpoch, ExtractYear, ExtractMonth,
        ExtractDay, ExtractHour, ExtractMinute, ExtractSecond, ExtractMicrosecond,
        ExtractMillisecond, ExtractDow, ExtractWeek, Dayname, FromUnixtime, UnixTimestamp,
        DateFormat, Quarter, DatetimeDiff, Date, InList, Coalesce, Sign, Like, Ilike, Choose, IsNull,
        IsBool,
    ];
    for f in &list {
        match f {
            Opposite | Not | Plus | Minus | Multiply | Divide | Modulo | StringConcat | Gt | Lt
            | GtEq | LtEq | Eq | NotEq | And | Or | Xor | BitwiseOr | BitwiseAnd | BitwiseXor
            | Exp | Ln | Log | Abs | Sin | Cos | Sqrt | Pow | Case | Concat(_) | CharLength
            | Lower | Upper | Md5 | Position | Random(_) | Pi | CastAsText | CastAsFloat
            | CastAsInteger | CastAsBoolean | CastAsDateTime | CastAsDate | CastAsTime | Least
            | Greatest | Rtrim | Ltrim | Substr | SubstrWithSize | Ceil | Floor | Round | Trunc
            | RegexpContains | RegexpExtract | RegexpReplace | Newid | Encode | Decode | Unhex
            | CurrentDate | CurrentTime | CurrentTimestamp | ExtractEpoch | ExtractYear
            | ExtractMonth | ExtractDay | ExtractHour | ExtractMinute | ExtractSecond
            | ExtractMicrosecond | ExtractMillisecond | ExtractDow | ExtractWeek | Dayname
            | FromUnixtime | UnixTimestamp | DateFormat | Quarter | DatetimeDiff | Date | InList
            | Coalesce | Sign | Like | Ilike | Choose | IsNull | IsBool => (),
        }
    }
    list
}

pub fn all_aggregates() -> Vec<Aggregate> {
    use Aggregate::*;
    static QS: [f64; 2] = [0.25, 0.75];
    let list = vec![
        Min, Max, Median, NUnique, First, Last, Mean, MeanDistinct, List, Count, CountDistinct,
        Quantile(0.5), Quantiles(&QS), Sum, SumDistinct, AggGroups, Std, StdDistinct, Var,
        VarDistinct,
    ];
    for a in &list {
        match a {
            Min | Max | Median | NUnique | First | Last | Mean | MeanDistinct | List | Count
            | CountDistinct | Quantile(_) | Quantiles(_) | Sum | SumDistinct | AggGroups | Std
            | StdDistinct | Var | VarDistinct => (),
        }
    }
    list
}

pub fn fname(f: &Function) -> String {
    match f {
        Function::Concat(n) => format!("Concat{n}"),
        Function::Random(_) => "Random".into(),
        f => format!("{:?}", f),
    }
}

pub fn kind_of(t: &DataType) -> String {
    match t {
        DataType::Null => "null".into(),
        DataType::Unit(_) => "unit".into(),
        DataType::Boolean(_) => "bool".into(),
        DataType::Integer(_) => "int".into(),
        DataType::Enum(_) => "enum".into(),
        DataType::Float(_) => "float".into(),
        DataType::Text(_) => "text".into(),
        DataType::Bytes(_) => "bytes".into(),
        DataType::Struct(_) => "struct".into(),
        DataType::Union(_) => "union".into(),
        DataType::Optional(o) => format!("opt-{}", kind_of(o.data_type())),
        DataType::List(l) => format!("list-{}", kind_of(l.data_type())),
        DataType::Set(_) => "set".into(),
        DataType::Array(_) => "array".into(),
        DataType::Date(_) => "date".into(),
        DataType::Time(_) => "time".into(),
        DataType::DateTime(_) => "datetime".into(),
        DataType::Duration(_) => "duration".into(),
        DataType::Id(_) => "id".into(),
        DataType::Function(_) => "function".into(),
        DataType::Any => "any".into(),
    }
}

/// Box lists per kind, by "size class": 0 = full (unary), 1 = medium (binary), 2 = small, 3 = tiny
pub struct Boxes {
    pub by_kind: BTreeMap<&'static str, [Vec<Boxed>; 4]>,
}

fn extreme_int_boxes() -> Vec<Boxed> {
    let pairs: Vec<[i64; 2]> = vec![
        [i64::MIN, i64::MAX],
        [i64::MAX - 1, i64::MAX],
        [i64::MIN, i64::MIN + 1],
        [1 << 53, (1 << 53) + 1],
        [0, i64::MAX],
        [i64::MIN, 0],
        [-(1 << 53) - 1, 5],
    ];
    pairs
        .into_iter()
        .map(|[a, b]| {
            let mut pts = int_points(&[a, b]);
            pts.retain(|p| a <= *p && *p <= b);
            if a < 0 && b > 0 {
                pts.extend([-1, 0, 1]);
                pts.sort();
                pts.dedup();
            }
            Boxed {
                kind: "int",
                desc: format!("int[[{a}, {b}]]"),
                data_type: DataType::integer_interval(a, b),
                points: pts.into_iter().map(Value::integer).collect(),
            }
        })
        .collect()
}

fn extreme_float_boxes() -> Vec<Boxed> {
    let pairs: Vec<[f64; 2]> = vec![
        [-f64::MAX, f64::MAX],
        [1e300, f64::MAX],
        [-f64::MAX, -1e300],
        [0.0, 5e-324],
        [0.0, f64::MAX],
        [-1e300, 1e300],
    ];
    pairs
        .into_iter()
        .map(|[a, b]| {
            let mut pts = float_points(&[a, b]);
            pts.retain(|p| a <= *p && *p <= b);
            if a < 0.0 && b > 0.0 {
                pts.extend([-1.0, 0.0, 1.0]);
                pts.sort_by(|x, y| x.partial_cmp(y).unwrap());
                pts.dedup();
            }
            Boxed {
                kind: "float",
                desc: format!("float[[{a:e}, {b:e}]]"),
                data_type: DataType::float_interval(a, b),
                points: pts.into_iter().map(Value::float).collect(),
            }
        })
        .collect()
}

fn pick(v: &[Boxed], idx: &[usize]) -> Vec<Boxed> {
    idx.iter().filter_map(|i| v.get(*i).cloned()).collect()
}

impl Boxes {
    pub fn new(tier: Tier) -> Boxes {
        let k = tier.pick(1, 2);
        let mut by_kind: BTreeMap<&'static str, [Vec<Boxed>; 4]> = BTreeMap::new();
        // integers
        let mut int_full = int_boxes(INT_BOUNDS_SMALL, k, 9);
        int_full.extend(extreme_int_boxes());
        let mut int_med = int_boxes(&[-3, 0, 1, 5], tier.pick(1, 2), 5);
        int_med.extend(pick(&extreme_int_boxes(), &[0, 1, 2, 3]));
        let int_small = {
            let mut v = int_boxes(&[-3, 0, 5], 1, 3);
            v.extend(pick(&extreme_int_boxes(), &[0]));
            v
        };
        let int_tiny = int_boxes(&[-1, 2], 1, 3);
        by_kind.insert("int", [int_full, int_med, int_small, int_tiny]);
        // floats
        let mut f_full = float_boxes(FLOAT_BOUNDS_SMALL, k, 9);
        f_full.extend(extreme_float_boxes());
        let mut f_med = float_boxes(&[-2.5, 0.0, 0.5, 2.5], tier.pick(1, 2), 5);
        f_med.extend(pick(&extreme_float_boxes(), &[0, 1, 3]));
        let f_small = {
            let mut v = float_boxes(&[-2.5, 0.0, 2.5], 1, 3);
            v.extend(pick(&extreme_float_boxes(), &[0]));
            v
        };
        let f_tiny = float_boxes(&[-0.5, 2.5], 1, 3);
        by_kind.insert("float", [f_full, f_med, f_small, f_tiny]);
        // text
        let t_full = text_boxes(k, 10);
        let n = t_full.len();
        let t_med = pick(&t_full, &[0, 2, 4, 10, 13, 20, 30, 54, n - 1]);
        let t_small = pick(&t_full, &[2, 13, n - 1]);
        let t_tiny = pick(&t_full, &[13, n - 1]);
        by_kind.insert("text", [t_full, t_med, t_small, t_tiny]);
        // bool
        let b = bool_boxes();
        by_kind.insert("bool", [b.clone(), b.clone(), b.clone(), pick(&b, &[0])]);
        // dates
        let d = date_boxes(k);
        by_kind.insert(
            "date",
            [d.clone(), pick(&d, &[0, 2, 5, 9, 14]), pick(&d, &[2, 14]), pick(&d, &[14])],
        );
        let t = time_boxes();
        by_kind.insert("time", [t.clone(), pick(&t, &[0, 3, 5]), pick(&t, &[5]), pick(&t, &[5])]);
        let dt = datetime_boxes(k);
        by_kind.insert(
            "datetime",
            [dt.clone(), pick(&dt, &[0, 2, 5, 9, 14]), pick(&dt, &[2, 14]), pick(&dt, &[14])],
        );
        // optionals of a few boxes
        let mut add_opt = |name: &'static str, base: &'static str, idx: &[usize]| {
            let src = by_kind.get(base).unwrap()[1].clone();
            let v: Vec<Boxed> = pick(&src, idx).iter().map(optional_of).collect();
            let small = v.iter().take(1).cloned().collect::<Vec<_>>();
            by_kind.insert(name, [v.clone(), v.clone(), small.clone(), small]);
        };
        add_opt("opt-int", "int", &[0, 5, 9, 10]);
        add_opt("opt-float", "float", &[0, 5, 9, 10]);
        add_opt("opt-text", "text", &[1, 8]);
        add_opt("opt-bool", "bool", &[0]);
        add_opt("opt-date", "date", &[4]);
        add_opt("opt-datetime", "datetime", &[4]);
        // lists of integers (the right operand of IN when it is a column and not a literal): the element type, the
        // size range, and every list of grid elements within the size range - repeated elements included
        {
            let mk = |elems: &[i64], min: usize, max: usize| -> Boxed {
                let mut points: Vec<Value> = vec![];
                let mut cur: Vec<Vec<i64>> = vec![vec![]];
                for len in 1..=max {
                    let mut next = vec![];
                    for c in &cur {
                        for e in elems {
                            let mut c2 = c.clone();
                            c2.push(*e);
                            next.push(c2);
                        }
                    }
                    cur = next;
                    if len >= min {
                        points.extend(cur.iter().map(|l| Value::list(l.iter().map(|i| Value::integer(*i)))));
                    }
                }
                Boxed { kind: "list-int", desc: format!("list(int{:?}, {min}..{max})", elems), data_type: DataType::list(DataType::integer_values(elems.to_vec()), min, max), points }
            };
            let v = vec![mk(&[0, 1], 2, 2), mk(&[0, 1], 1, 2), mk(&[2], 1, 1), mk(&[-3, 0, 5], 1, 2), mk(&[0, 1, 5], 3, 3)];
            by_kind.insert("list-int", [v.clone(), v.clone(), v.clone(), v.iter().take(1).cloned().collect()]);
        }
        for (_, lists) in by_kind.iter_mut() {
            for l in lists.iter_mut() {
                *l = l.drain(..).map(sanitize).filter(|b| !b.points.is_empty()).collect();
            }
        }
        Boxes { by_kind }
    }
    pub fn kinds(&self) -> Vec<&'static str> {
        self.by_kind.keys().cloned().collect()
    }
    pub fn base_kinds(&self) -> Vec<&'static str> {
        vec!["int", "float", "text", "bool", "date", "time", "datetime"]
    }
    pub fn get(&self, kind: &str, class: usize) -> &Vec<Boxed> {
        &self.by_kind.get(kind).unwrap()[class]
    }
}

fn cartesian<T: Clone>(lists: &[Vec<T>]) -> Vec<Vec<T>> {
    let mut out: Vec<Vec<T>> = vec![vec![]];
    for l in lists {
        let mut next = Vec::with_capacity(out.len() * l.len());
        for prefix in &out {
            for x in l {
                let mut p = prefix.clone();
                p.push(x.clone());
                next.push(p);
            }
        }
        out = next;
    }
    out
}

fn err_str<E: std::fmt::Display>(e: E) -> String {
    let s = e.to_string();
    s.chars().take(200).collect()
}

/// root-cause signature: function, failure kind (with the panic site), and the class of the point:
/// `null-arg` (some argument is NULL), `null-result` (the value is NULL), `value` otherwise
fn signature(prefix: &str, name: &str, fail: &str, detail: &serde_json::Value, args: &[Value], y_is_none: bool) -> String {
    fn has_none(v: &Value) -> bool {
        is_none(v) || matches!(v, Value::List(l) if l.iter().any(is_none))
    }
    fn extreme(v: &Value) -> bool {
        match v {
            Value::Integer(i) => i.unsigned_abs() >= (1u64 << 53),
            Value::Float(f) => f.abs() >= 9007199254740992.0 || (**f != 0.0 && f.abs() < 1e-300),
            Value::Optional(o) => o.as_ref().as_ref().map_or(false, |x| extreme(x)),
            Value::List(l) => l.iter().any(extreme),
            Value::Struct(s) => s.fields().iter().any(|(_, x)| extreme(x)),
            _ => false,
        }
    }
    let fail = if fail == "image-panic" {
        format!("image-panic@{}", detail["image_panic"].as_str().unwrap_or("?").split(' ').next().unwrap_or("?").trim_end_matches(':'))
    } else {
        fail.to_string()
    };
    if args.iter().any(has_none) {
        format!("{prefix}={name} fail={fail} class=null-arg")
    } else if y_is_none {
        format!("{prefix}={name} fail={fail} class=null-result")
    } else {
        let kinds = detail["arg_kinds"].as_array().map(|a| a.iter().map(|k| k.as_str().unwrap_or("?").to_string()).collect::<Vec<_>>().join(",")).unwrap_or_default();
        let mag = if args.iter().any(extreme) { "extreme" } else { "small" };
        format!("{prefix}={name} fail={fail} class=value args=({kinds}) mag={mag}")
    }
}

enum Img {
    Ok(DataType),
    Err(String),
    Panic(Panic),
}

/// One node check: the image of `types` under `f` must contain the value of `f` on `vals`.
/// Returns (evaluated?, Some((failure kind, detail)))
fn check_point(
    image: &Img,
    value: Result<Result<Value, String>, Panic>,
) -> (bool, bool, Option<(&'static str, serde_json::Value)>) {
    // (evaluated, result is non-null, failure)
    match value {
        Err(_p) => (false, false, None), // value panics: "does not evaluate" (left to C18)
        Ok(Err(_)) => (false, false, None),
        Ok(Ok(y)) => {
            if is_nan(&y) {
                return (false, false, None);
            }
            let nonnull = !is_none(&y);
            match image {
                Img::Ok(t) => {
                    if ref_member(t, &y) {
                        (true, nonnull, None)
                    } else {
                        (
                            true,
                            nonnull,
                            Some((
                                "excluded",
                                json!({"image": t.to_string(), "value": y.to_string()}),
                            )),
                        )
                    }
                }
                Img::Err(e) => (
                    true,
                    nonnull,
                    Some(("image-err", json!({"image_error": e, "value": y.to_string()}))),
                ),
                Img::Panic(p) => (
                    true,
                    nonnull,
                    Some((
                        "image-panic",
                        json!({"image_panic": format!("{}: {}", p.site(), p.message), "value": y.to_string()}),
                    )),
                ),
            }
        }
    }
}

fn image_of(f: Function, types: &[DataType]) -> Img {
    match guarded(|| f.super_image(types)) {
        Ok(Ok(t)) => Img::Ok(t),
        Ok(Err(e)) => Img::Err(err_str(e)),
        Err(p) => Img::Panic(p),
    }
}

fn value_of(f: Function, vals: &[Value]) -> Result<Result<Value, String>, Panic> {
    guarded(|| f.value(vals)).map(|r| r.map_err(err_str))
}

fn arity_of(f: Function) -> usize {
    use qrlew::expr::function::Arity;
    match f {
        Function::Concat(n) => n,
        _ => match f.arity() {
            Arity::Unary => 1,
            Arity::Nary(n) => n,
            Arity::Varying => 2,
        },
    }
}

/// explore one (function, kind tuple): all box tuples of the size class × all point tuples
fn explore_fn_kinds(f: Function, kinds: &[&'static str], boxes: &Boxes, r: &mut Report) {
    let n = kinds.len();
    let class = match n {
        0 | 1 => 0,
        2 => 1,
        3 => 2,
        _ => 3,
    };
    let name = fname(&f);
    let case_id = format!("fn={} kinds={}", name, kinds.join(","));
    // probe: does any point tuple of the first boxes give a non-null value?
    if n >= 2 {
        let probe_boxes: Vec<Vec<Boxed>> = kinds
            .iter()
            .map(|k| boxes.get(k, 3).iter().take(1).cloned().collect())
            .collect();
        let mut any = false;
        'p: for bt in cartesian(&probe_boxes) {
            let pts: Vec<Vec<Value>> = bt.iter().map(|b| b.points.clone()).collect();
            for vt in cartesian(&pts) {
                if let Ok(Ok(y)) = value_of(f, &vt) {
                    if !is_none(&y) && !is_nan(&y) {
                        any = true;
                        break 'p;
                    }
                }
            }
        }
        if !any {
            r.add_count("kind_tuples_probed_null_only", 1);
            // still check the probe boxes: the image must admit the null result
            explore_boxes(f, &name, &case_id, kinds, &probe_boxes, r);
            return;
        }
    }
    let lists: Vec<Vec<Boxed>> = kinds.iter().map(|k| boxes.get(k, class).clone()).collect();
    explore_boxes(f, &name, &case_id, kinds, &lists, r);
}

fn explore_boxes(
    f: Function,
    name: &str,
    case_id: &str,
    kinds: &[&'static str],
    lists: &[Vec<Boxed>],
    r: &mut Report,
) {
    let mut nonnull_here = 0u64;
    for bt in cartesian(lists) {
        let types: Vec<DataType> = bt.iter().map(|b| b.data_type.clone()).collect();
        let image = image_of(f, &types);
        let pts: Vec<Vec<Value>> = bt.iter().map(|b| b.points.clone()).collect();
        let mut box_nontrivial = false;
        for vt in cartesian(&pts) {
            r.evaluations += 1;
            let (evaluated, nonnull, fail) = check_point(&image, value_of(f, &vt));
            if evaluated && nonnull {
                nonnull_here += 1;
                box_nontrivial = true;
            }
            if let Some((kind, mut detail)) = fail {
                detail["arg_kinds"] = json!(kinds);
                let sig = signature("fn", name, kind, &detail, &vt, detail["value"] == "none");
                detail["function"] = json!(name);
                detail["arg_types"] = json!(types.iter().map(|t| t.to_string()).collect::<Vec<_>>());
                detail["arg_values"] = json!(vt.iter().map(|v| v.to_string()).collect::<Vec<_>>());
                r.violation(sig, case_id, detail);
            }
        }
        if box_nontrivial {
            r.distinct_nontrivial += 1;
            if r.samples.is_empty() {
                r.sample(json!({"function": name, "arg_types": types.iter().map(|t| t.to_string()).collect::<Vec<_>>(),
                    "image": match &image { Img::Ok(t) => t.to_string(), Img::Err(e) => format!("Err({e})"), Img::Panic(p) => format!("panic {}", p.site()) },
                    "points": pts.iter().map(|l| l.iter().map(|v| v.to_string()).collect::<Vec<_>>()).collect::<Vec<_>>() }));
            }
        }
    }
    if nonnull_here > 0 {
        let cur = r
            .extra
            .get("nonnull_evaluations_per_function")
            .cloned()
            .unwrap_or(json!({}));
        let mut m = cur.as_object().cloned().unwrap_or_default();
        let c = m.get(name).and_then(|x| x.as_u64()).unwrap_or(0);
        m.insert(name.to_string(), json!(c + nonnull_here));
        r.extra
            .insert("nonnull_evaluations_per_function".into(), serde_json::Value::Object(m));
    }
}

// ---------------------------------------------------------------------------------------
// Aggregates

fn agg_name(a: &Aggregate) -> String {
    match a {
        Aggregate::Quantile(_) => "Quantile".into(),
        Aggregate::Quantiles(_) => "Quantiles".into(),
        a => format!("{:?}", a),
    }
}

fn explore_aggregate(a: Aggregate, kind: &'static str, boxes: &Boxes, tier: Tier, r: &mut Report) {
    let name = agg_name(&a);
    let case_id = format!("agg={} kind={}", name, kind);
    let max_len = tier.pick(3, 4);
    let mut nonnull_here = 0u64;
    // the medium box list, plus non-convex element types (value sets and unions of two intervals)
    // in every tier: a mean / variance lies in the hull of the type, not in the type
    let mut element_boxes: Vec<Boxed> = boxes.get(kind, 1).clone();
    match kind {
        "int" => element_boxes.extend(int_boxes(&[-3, 0, 2, 5], 2, 4).into_iter().filter(|b| b.desc.matches("], [").count() >= 1).take(12)),
        "float" => element_boxes.extend(float_boxes(&[-2.5, 0.0, 1.0, 5.0], 2, 4).into_iter().filter(|b| b.desc.matches("], [").count() >= 1).take(12)),
        _ => {}
    }
    for b in &element_boxes {
        // at most 4 points of the box
        let mut pts = b.points.clone();
        if pts.len() > 4 {
            let n = pts.len();
            pts = vec![pts[0].clone(), pts[n / 3].clone(), pts[2 * n / 3].clone(), pts[n - 1].clone()];
        }
        // all lists of length 0..=max_len
        let mut lists: Vec<Vec<Value>> = vec![vec![]];
        let mut frontier: Vec<Vec<Value>> = vec![vec![]];
        for _ in 0..max_len {
            let mut next = vec![];
            for l in &frontier {
                for p in &pts {
                    let mut l2 = l.clone();
                    l2.push(p.clone());
                    next.push(l2);
                }
            }
            lists.extend(next.iter().cloned());
            frontier = next;
        }
        for (size_mode, _) in [("exact", 0), ("range", 1)] {
            for l in &lists {
                let len = l.len();
                let set = if size_mode == "exact" {
                    DataType::list(b.data_type.clone(), len, len)
                } else {
                    DataType::list(b.data_type.clone(), 0, max_len)
                };
                let image = match guarded(|| a.super_image(&set)) {
                    Ok(Ok(t)) => Img::Ok(t),
                    Ok(Err(e)) => Img::Err(err_str(e)),
                    Err(p) => Img::Panic(p),
                };
                let arg = Value::list(l.clone());
                let val = guarded(|| a.value(&arg)).map(|x| x.map_err(err_str));
                r.evaluations += 1;
                let (evaluated, nonnull, fail) = check_point(&image, val);
                if evaluated && nonnull {
                    nonnull_here += 1;
                    r.distinct_nontrivial += 1;
                }
                if let Some((fk, mut detail)) = fail {
                    detail["arg_kinds"] = json!([format!("list-{kind}")]);
                    let sig = signature("agg", &name, fk, &detail, std::slice::from_ref(&arg), detail["value"] == "none");
                    detail["aggregate"] = json!(name);
                    detail["arg_type"] = json!(set.to_string());
                    detail["arg_value"] = json!(arg.to_string());
                    r.violation(sig, &case_id, detail);
                }
            }
        }
    }
    if nonnull_here > 0 {
        let cur = r.extra.get("nonnull_evaluations_per_aggregate").cloned().unwrap_or(json!({}));
        let mut m = cur.as_object().cloned().unwrap_or_default();
        let c = m.get(&name).and_then(|x| x.as_u64()).unwrap_or(0);
        m.insert(name.clone(), json!(c + nonnull_here));
        r.extra
            .insert("nonnull_evaluations_per_aggregate".into(), serde_json::Value::Object(m));
    }
}

// ---------------------------------------------------------------------------------------
// Expression trees

#[derive(Clone, Debug)]
enum Tree {
    Col(usize),
    Node(Function, Vec<Tree>),
}

impl Tree {
    fn expr(&self, cols: &[&str]) -> Expr {
        match self {
            Tree::Col(i) => Expr::col(cols[*i]),
            Tree::Node(f, args) => Expr::Function(qrlew::expr::Function::new(
                *f,
                args.iter().map(|a| Arc::new(a.expr(cols))).collect(),
            )),
        }
    }
    fn show(&self) -> String {
        match self {
            Tree::Col(i) => ["a", "b"][*i].to_string(),
            Tree::Node(f, args) => format!(
                "{}({})",
                fname(f),
                args.iter().map(|a| a.show()).collect::<Vec<_>>().join(",")
            ),
        }
    }
    /// bottom-up (type, value) evaluation; reports the innermost failing node
    fn eval(
        &self,
        types: &[DataType],
        vals: &[Value],
    ) -> Result<(DataType, Value), Option<(String, serde_json::Value)>> {
        match self {
            Tree::Col(i) => Ok((types[*i].clone(), vals[*i].clone())),
            Tree::Node(f, args) => {
                let mut ts = vec![];
                let mut vs = vec![];
                for a in args {
                    let (t, v) = a.eval(types, vals)?;
                    ts.push(t);
                    vs.push(v);
                }
                let image = image_of(*f, &ts);
                let (evaluated, _nn, fail) = check_point(&image, value_of(*f, &vs));
                if let Some((fk, mut detail)) = fail {
                    let kinds: Vec<String> = ts.iter().map(kind_of).collect();
                    detail["function"] = json!(fname(f));
                    detail["arg_types"] = json!(ts.iter().map(|t| t.to_string()).collect::<Vec<_>>());
                    detail["arg_values"] = json!(vs.iter().map(|v| v.to_string()).collect::<Vec<_>>());
                    detail["arg_kinds"] = json!(kinds);
                    let sig = signature("fn", &fname(f), fk, &detail, &vs, detail["value"] == "none");
                    return Err(Some((sig, detail)));
                }
                if !evaluated {
                    return Err(None);
                }
                match (image, value_of(*f, &vs)) {
                    (Img::Ok(t), Ok(Ok(v))) => Ok((t, v)),
                    _ => Err(None),
                }
            }
        }
    }
}

fn tree_alphabet() -> (Vec<Function>, Vec<Function>) {
    use Function::*;
    (
        vec![Opposite, Abs, Sqrt, Exp, Ln, CastAsInteger, Sign, Floor],
        vec![Plus, Minus, Multiply, Divide, Least, Greatest, Gt, Pow, Coalesce, Modulo],
    )
}

fn trees(depth: usize) -> Vec<Tree> {
    let (un, bi) = tree_alphabet();
    let mut level: Vec<Tree> = vec![Tree::Col(0), Tree::Col(1)];
    let mut all = level.clone();
    for _ in 0..depth {
        let mut next = vec![];
        for f in &un {
            for t in &level {
                next.push(Tree::Node(*f, vec![t.clone()]));
            }
        }
        for f in &bi {
            for t in &level {
                // other argument: a column (keeps the space small) or the same tree
                for o in [Tree::Col(0), Tree::Col(1)] {
                    next.push(Tree::Node(*f, vec![t.clone(), o.clone()]));
                    next.push(Tree::Node(*f, vec![o, t.clone()]));
                }
            }
        }
        all.extend(next.iter().cloned());
        level = next;
    }
    all.retain(|t| matches!(t, Tree::Node(_, _)));
    all
}

fn explore_tree(t: &Tree, boxes: &Boxes, r: &mut Report) {
    let case_id = format!("tree={}", t.show());
    let cols = ["a", "b"];
    let expr = t.expr(&cols);
    for (ka, kb) in [("int", "float"), ("float", "int"), ("int", "int"), ("float", "float"), ("opt-int", "float")] {
        for ba in boxes.get(ka, 2) {
            for bb in boxes.get(kb, 2) {
                let st = DataType::structured([("a", ba.data_type.clone()), ("b", bb.data_type.clone())]);
                let whole_image = guarded(|| expr.super_image(&st));
                for va in &ba.points {
                    for vb in &bb.points {
                        r.evaluations += 1;
                        let sv = Value::structured([("a", va.clone()), ("b", vb.clone())]);
                        let whole_value = guarded(|| expr.value(&sv));
                        let y = match whole_value {
                            Ok(Ok(y)) if !is_nan(&y) => y,
                            _ => continue,
                        };
                        let ok = match &whole_image {
                            Ok(Ok(t)) => ref_member(t, &y),
                            _ => false,
                        };
                        if !is_none(&y) {
                            r.distinct_nontrivial += 1;
                        }
                        if ok {
                            continue;
                        }
                        // attribute to the innermost failing node
                        let types = [ba.data_type.clone(), bb.data_type.clone()];
                        let vals = [va.clone(), vb.clone()];
                        match t.eval(&types, &vals) {
                            Err(Some((sig, mut detail))) => {
                                detail["expression"] = json!(t.show());
                                detail["column_types"] = json!([ba.desc, bb.desc]);
                                detail["column_values"] = json!([va.to_string(), vb.to_string()]);
                                r.violation(sig, &case_id, detail);
                            }
                            _ => {
                                // the nodes are individually sound on this point but the whole
                                // expression is not: a composition defect
                                let img = match &whole_image {
                                    Ok(Ok(t)) => t.to_string(),
                                    Ok(Err(e)) => format!("Err({})", err_str(e)),
                                    Err(p) => format!("panic {}", p.site()),
                                };
                                r.violation(
                                    format!("expr-composition outer={}", match t { Tree::Node(f, _) => fname(f), _ => "col".into() }),
                                    &case_id,
                                    json!({"expression": t.show(), "column_types": [ba.desc, bb.desc], "column_values": [va.to_string(), vb.to_string()], "image": img, "value": y.to_string()}),
                                );
                            }
                        }
                    }
                }
            }
        }
    }
}

// ---------------------------------------------------------------------------------------

enum Work {
    Fn(Function, Vec<&'static str>),
    Agg(Aggregate, &'static str),
    Tree(Tree),
}

pub fn run(ctx: &Ctx) -> Report {
    let boxes = Boxes::new(ctx.tier);
    let mut work: Vec<(String, Work)> = vec![];
    let all_kinds = boxes.kinds();
    let base = boxes.base_kinds();
    for f in all_functions() {
        let n = arity_of(f);
        // list-typed operands are explored for IN only (the one function of the SQL fragment that takes a list)
        let scalar_kinds: Vec<&'static str> = all_kinds.iter().copied().filter(|k| *k != "list-int").collect();
        let kind_lists: Vec<Vec<&'static str>> = match n {
            0 => vec![],
            2 if matches!(f, Function::InList) => vec![scalar_kinds.clone(), all_kinds.clone()],
            1 | 2 => (0..n).map(|_| scalar_kinds.clone()).collect(),
            _ => (0..n).map(|_| base.clone()).collect(),
        };
        for kt in cartesian(&kind_lists) {
            let id = format!("fn={} kinds={}", fname(&f), kt.join(","));
            work.push((id, Work::Fn(f, kt)));
        }
    }
    for a in all_aggregates() {
        for k in ["int", "float", "text", "bool", "opt-int", "opt-float", "date"] {
            work.push((format!("agg={} kind={}", agg_name(&a), k), Work::Agg(a, k)));
        }
    }
    let depth = ctx.tier.pick(2, 2);
    for t in trees(depth) {
        work.push((format!("tree={}", t.show()), Work::Tree(t)));
    }
    let n_work = work.len();
    let work: Vec<(String, Work)> = work.into_iter().filter(|(id, _)| ctx.wants(id)).collect();
    let tier = ctx.tier;
    let mut report = par_reports_isolated(work, "exploration", |(_, w), r| match w {
        Work::Fn(f, kinds) => {
            r.add_count("function_kind_tuples", 1);
            if kinds.is_empty() {
                // nullary
                let name = fname(&f);
                let image = image_of(f, &[]);
                r.evaluations += 1;
                let (evaluated, nn, fail) = check_point(&image, value_of(f, &[]));
                if evaluated && nn {
                    r.distinct_nontrivial += 1;
                }
                if let Some((fk, detail)) = fail {
                    r.violation(signature("fn", &name, fk, &detail, &[], false), format!("fn={} kinds=", name), detail);
                }
            } else {
                explore_fn_kinds(f, &kinds, &boxes, r)
            }
        }
        Work::Agg(a, k) => {
            r.add_count("aggregate_kind_pairs", 1);
            explore_aggregate(a, k, &boxes, tier, r)
        }
        Work::Tree(t) => {
            r.add_count("expression_trees", 1);
            explore_tree(&t, &boxes, r)
        }
    });
    report.rule = "cases = (function|aggregate|depth-2 expression) x argument boxes (unions of intervals on a bound grid, optional, mixed int/float, extremes) x every grid point inside the box (lists of <=3 points for aggregates); non-trivial = distinct (function, box tuple) with at least one non-NULL, non-NaN evaluation; oracle: value(v)=Ok(y) => super_image(S)=Ok(T) and ref_member(T,y)".into();
    report.set("work_units_total", n_work as u64);
    // functions that never evaluated to a non-null value: the exploration is vacuous for them
    let evaluated: Vec<String> = report
        .extra
        .get("nonnull_evaluations_per_function")
        .and_then(|m| m.as_object())
        .map(|m| m.keys().cloned().collect())
        .unwrap_or_default();
    let never: Vec<String> = all_functions()
        .iter()
        .map(fname)
        .filter(|n| !evaluated.contains(n) && arity_of_name_nonzero(n))
        .collect();
    report.set("functions_never_evaluated_nonnull", json!(never));
    report.assumptions = vec![
        "values outside the grids are not explored".into(),
        "Random/Newid/Current* draw from the OS; only membership of the drawn value is checked".into(),
        "a panic or Err of value() means 'does not evaluate' (totality is C18)".into(),
    ];
    report
}

fn arity_of_name_nonzero(n: &str) -> bool {
    !matches!(n, "Pi" | "Random" | "Newid" | "CurrentDate" | "CurrentTime" | "CurrentTimestamp")
}
