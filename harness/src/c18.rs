//! C18 — compilation is total on the supported fragment: errors, never panics.
//! Exhaustive over E-sql + name-clash queries + unsupported-construct probes x extreme schemas x
//! DpParameters (incl. zero budgets), through parse -> relation -> schema -> render -> privacy-unit
//! rewriting -> DP rewriting. Cases run in supervised child processes so that aborts, stack
//! overflows and non-termination are attributed to a case.
use crate::common::*;
use crate::sqlchecks::{compile, Outcome};
use crate::sqlgen::queries;
use crate::sqlite::{same_multiset, Engine};
use crate::world::World;
use qrlew::builder::With;
use qrlew::data_type::intervals::Intervals;
use qrlew::data_type::DataType;
use qrlew::differential_privacy::DpParameters;
use qrlew::hierarchy::Hierarchy;
use qrlew::privacy_unit_tracking::{PrivacyUnit, Strategy};
use qrlew::relation::{Relation, Variant as _};
use qrlew::{ast, sql::parse};
use serde_json::json;
use std::io::Write;
use std::sync::Arc;

#[derive(Clone, Debug)]
pub struct Case {
    pub sql: String,
    pub kind: &'static str,
    /// tables the query names (for the silently-dropped-construct oracle)
    pub tables: Vec<&'static str>,
}

pub fn probes() -> Vec<Case> {
    let p = |sql: &str, tables: &[&'static str]| Case { sql: sql.to_string(), kind: "probe", tables: tables.to_vec() };
    let u: &[&'static str] = &["users"];
    let uo: &[&'static str] = &["users", "orders"];
    vec![
        p("SELECT foo(age) AS x FROM users", u),
        p("SELECT id FROM users, orders", uo),
        p("SELECT users.id FROM users, orders WHERE users.id = orders.user_id", uo),
        p("SELECT sum(age) OVER (PARTITION BY city) AS s FROM users", u),
        p("SELECT row_number() OVER (ORDER BY id) AS r, id FROM users", u),
        p("SELECT id, (SELECT max(id) FROM orders) AS m FROM users", uo),
        p("SELECT id FROM users WHERE id IN (SELECT user_id FROM orders)", uo),
        p("SELECT id FROM users WHERE EXISTS (SELECT 1 FROM orders WHERE orders.user_id = users.id)", uo),
        p("SELECT id FROM users WHERE id > ALL (SELECT user_id FROM orders)", uo),
        p("SELECT u.* FROM users u", u),
        p("SELECT u.*, o.amount FROM users u JOIN orders o ON u.id = o.user_id", uo),
        p("(SELECT id FROM users UNION SELECT id FROM orders) EXCEPT SELECT id FROM users WHERE id = 1", uo),
        p("SELECT id FROM users UNION SELECT id FROM orders UNION ALL SELECT id FROM users", uo),
        p("SELECT city, count(*) AS c FROM users GROUP BY ALL", u),
        p("SELECT city, count(*) AS c FROM users GROUP BY ROLLUP (city)", u),
        p("SELECT city, age, count(*) AS c FROM users GROUP BY GROUPING SETS ((city), (age))", u),
        p("SELECT city, count(*) AS c FROM users GROUP BY CUBE (city)", u),
        p("SELECT age <=> 18 AS b FROM users", u),
        p("SELECT city ~ 'A' AS b FROM users", u),
        p("SELECT city SIMILAR TO 'A%' AS b FROM users", u),
        p("SELECT city LIKE 'A%' AS b FROM users", u),
        p("SELECT city ILIKE 'a%' AS b FROM users", u),
        p("SELECT age IS DISTINCT FROM 18 AS b FROM users", u),
        p("SELECT age IS NOT DISTINCT FROM id AS b FROM users", u),
        p("SELECT age & 1 AS x, age | 1 AS y, age # 1 AS z FROM users", u),
        p("SELECT age ^ 2 AS x FROM users", u),
        p("SELECT +age AS x FROM users", u),
        p("SELECT @age AS x FROM users", u),
        p("SELECT age! AS x FROM users", u),
        p("SELECT ~age AS x FROM users", u),
        p("SELECT CASE WHEN age > 18 THEN 1 END AS x FROM users", u),
        p("SELECT CASE age WHEN 18 THEN 'a' WHEN 20 THEN 'b' ELSE 'c' END AS x FROM users", u),
        p("SELECT NULLIF(age, 18) AS x FROM users", u),
        p("SELECT COALESCE(NULL, age, 0) AS x FROM users", u),
        p("SELECT EXTRACT(YEAR FROM CAST('2020-01-01' AS DATE)) AS y FROM users", u),
        p("SELECT INTERVAL '1 day' AS i FROM users", u),
        p("SELECT CAST('2020-01-01' AS DATE) AS d FROM users", u),
        p("SELECT age::float AS f FROM users", u),
        p("SELECT DATE '2020-01-01' AS d FROM users", u),
        p("SELECT ARRAY[1, 2] AS a FROM users", u),
        p("SELECT (ARRAY[1, 2])[1] AS a FROM users", u),
        p("SELECT (1, 2) AS t FROM users", u),
        p("SELECT id FROM users WHERE (id, age) IN ((1, 18))", u),
        p("SELECT id FROM users WHERE id = ANY (ARRAY[1, 2])", u),
        p("SELECT (age > 18) IS TRUE AS b FROM users", u),
        p("SELECT (age > 18) IS UNKNOWN AS b FROM users", u),
        p("SELECT id FROM users WHERE age IS NULL", u),
        p("SELECT TRIM(BOTH 'A' FROM city) AS t FROM users", u),
        p("SELECT SUBSTRING(city FROM 1 FOR 1) AS s FROM users", u),
        p("SELECT POSITION('A' IN city) AS p FROM users", u),
        p("SELECT OVERLAY(city PLACING 'x' FROM 1) AS o FROM users", u),
        p("SELECT city COLLATE \"C\" AS c FROM users", u),
        p("SELECT CEIL(age) AS c, FLOOR(age) AS f, ROUND(age / 3, 1) AS r FROM users", u),
        p("SELECT id FROM LATERAL (SELECT id FROM users) AS t", u),
        p("SELECT x FROM UNNEST(ARRAY[1, 2]) AS t(x)", &[]),
        p("SELECT g FROM generate_series(1, 3) AS g", &[]),
        p("SELECT u.id FROM (users u JOIN orders o ON u.id = o.user_id)", uo),
        p("SELECT a FROM (VALUES (1), (2)) AS t(a)", &[]),
        p("SELECT id FROM users TABLESAMPLE BERNOULLI (10)", u),
        p("SELECT u.id FROM users u CROSS APPLY orders o", uo),
        p("SELECT u.id FROM users u LEFT SEMI JOIN orders o ON u.id = o.user_id", uo),
        p("SELECT u.id FROM users u LEFT ANTI JOIN orders o ON u.id = o.user_id", uo),
        p("VALUES (1), (2)", &[]),
        p("TABLE users", u),
        p("SELECT DISTINCT ON (city) city, age FROM users", u),
        p("SELECT TOP 1 id FROM users", u),
        p("SELECT ALL id FROM users", u),
        p("SELECT id INTO t FROM users", u),
        p("SELECT id FROM users ORDER BY id NULLS FIRST", u),
        p("SELECT id FROM users ORDER BY id FETCH FIRST 1 ROWS ONLY", u),
        p("SELECT id FROM users LIMIT ALL", u),
        p("SELECT id FROM users FOR UPDATE", u),
        p("SELECT count(*) AS c FROM users HAVING count(*) > 1", u),
        p("SELECT id FROM users QUALIFY row_number() OVER (ORDER BY id) = 1", u),
        p("SELECT sum(age) OVER w AS s FROM users WINDOW w AS (PARTITION BY city)", u),
        p("SELECT 1", &[]),
        p("SELECT 1 + 1 AS x", &[]),
        p("SELECT count(ALL age) AS c FROM users", u),
        p("SELECT sum(age) FILTER (WHERE city = 'A') AS s FROM users", u),
        p("SELECT string_agg(city, ',') AS s FROM users", u),
        p("SELECT array_agg(age ORDER BY id) AS a FROM users", u),
        p("SELECT percentile_cont(0.5) WITHIN GROUP (ORDER BY age) AS m FROM users", u),
        p("SELECT median(age) AS m FROM users", u),
        p("SELECT stddev(age) AS s, variance(age) AS v FROM users", u),
        p("SELECT id, id FROM users", u),
        p("SELECT age AS x, city AS x FROM users", u),
        p("SELECT u.id, o.id FROM users u JOIN orders o ON u.id = o.user_id", uo),
        p("SELECT * FROM users u JOIN orders o ON u.id = o.user_id", uo),
        p("SELECT id FROM users WHERE age BETWEEN SYMMETRIC 20 AND 18", u),
        p("SELECT id FROM users WHERE city IN ('A', 'B') AND NOT age IN (18)", u),
        p("SELECT age / 0 AS z FROM users", u),
        p("SELECT age % 0 AS z FROM users", u),
        p("SELECT age / id AS z, age % id AS m FROM users", u),
        p("SELECT 1 / (age - 19) AS z FROM users", u),
        p("SELECT ln(age - 19) AS l, sqrt(age - 19) AS s FROM users", u),
        p("SELECT sum(age) / count(*) AS a FROM users GROUP BY city", u),
        p("SELECT id FROM nosuchtable", &[]),
        p("SELECT nosuchcolumn FROM users", u),
        p("SELECT users.nosuch FROM users", u),
        p("SELECT x.id FROM users", u),
        p("SELECT id FROM users ORDER BY nosuch", u),
        p("SELECT id FROM users GROUP BY nosuch", u),
        p("SELECT id FROM users LIMIT -1", u),
        p("SELECT id FROM users OFFSET 1", u),
        p("SELECT sum(sum(age)) AS s FROM users", u),
        p("SELECT age, count(*) AS c FROM users", u),
        p("SELECT id FROM users WHERE sum(age) > 1", u),
        p("SELECT id FROM users GROUP BY 1", u),
        p("SELECT id AS \"\" FROM users", u),
        p("WITH RECURSIVE r AS (SELECT 1 AS n UNION ALL SELECT n + 1 FROM r WHERE n < 3) SELECT n FROM r", &[]),
    ]
}

fn name_clash_cases() -> Vec<Case> {
    let mut out = vec![];
    for j in ["JOIN", "LEFT JOIN", "RIGHT JOIN", "FULL JOIN", "CROSS JOIN"] {
        let on = if j == "CROSS JOIN" { "" } else { " ON users.id = orders.user_id" };
        for sel in ["id", "users.id, id", "count(id) AS c"] {
            out.push(Case { sql: format!("SELECT {sel} FROM users {j} orders{on}"), kind: "name-clash", tables: vec!["users", "orders"] });
        }
        out.push(Case { sql: format!("SELECT age FROM users {j} orders{on} WHERE id = 1"), kind: "name-clash", tables: vec!["users", "orders"] });
        out.push(Case { sql: format!("SELECT count(*) AS c FROM users {j} orders{on} GROUP BY id"), kind: "name-clash", tables: vec!["users", "orders"] });
    }
    out.push(Case { sql: "SELECT id FROM users a JOIN users b ON a.id = b.id".into(), kind: "name-clash", tables: vec!["users"] });
    out
}

pub fn cases(tier: Tier) -> Vec<Case> {
    let mut out: Vec<Case> = crate::sqlgen::queries_plus_depth(tier, tier.pick(1, 2)).into_iter().map(|g| Case { sql: g.sql, kind: "fragment", tables: g.tables }).collect();
    // every application of the function sweep, including the ones whose value is undefined on part of the range
    {
        let have: std::collections::BTreeSet<String> = out.iter().map(|c| c.sql.clone()).collect();
        out.extend(crate::sqlgen::function_sweep(tier.pick(1, 3), false).into_iter().filter(|g| !have.contains(&g.sql)).map(|g| Case { sql: g.sql, kind: "fragment", tables: g.tables }));
    }
    out.extend(name_clash_cases());
    out.extend(probes());
    out
}

/// schema variants: (name, relations)
pub fn worlds(tier: Tier) -> Vec<(&'static str, Hierarchy<Arc<Relation>>)> {
    let base = World::standard();
    let mut out = vec![("standard", base.relations())];
    let variant = |f: &dyn Fn(&str, &str, &DataType) -> DataType| -> Hierarchy<Arc<Relation>> {
        let mut w = base.clone();
        for t in w.tables.iter_mut() {
            for c in t.cols.iter_mut() {
                c.data_type = f(t.name, c.name, &c.data_type);
            }
        }
        w.relations()
    };
    fn numeric_full(t: &DataType) -> DataType {
        match t {
            DataType::Integer(_) => DataType::integer(),
            DataType::Float(_) => DataType::float(),
            DataType::Text(_) => DataType::text(),
            DataType::Optional(o) => DataType::optional(numeric_full(o.data_type())),
            t => t.clone(),
        }
    }
    out.push(("unbounded", variant(&|_, _, t| numeric_full(t))));
    out.push((
        "zero-containing",
        variant(&|_, c, t| match (c, t) {
            ("id", _) | ("user_id", _) | ("order_id", _) => DataType::integer_interval(-2, 2),
            ("age", _) | ("zone", _) | ("qty", _) | ("v", _) => DataType::integer_interval(-1, 1),
            (_, DataType::Float(_)) => DataType::float_interval(-1.0, 1.0),
            (_, DataType::Optional(_)) => DataType::optional(DataType::float_interval(-1.0, 1.0)),
            (_, t) => t.clone(),
        }),
    ));
    out.push((
        "extreme",
        variant(&|_, c, t| match (c, t) {
            ("id", _) => DataType::integer_interval(i64::MIN, i64::MAX - 1),
            ("age", _) => DataType::integer_interval(200, i64::MAX),
            ("user_id", _) | ("order_id", _) => DataType::integer_interval(i64::MIN + 1, i64::MAX),
            (_, DataType::Float(_)) => DataType::float_interval(-f64::MAX, f64::MAX),
            (_, DataType::Optional(_)) => DataType::optional(DataType::float_interval(-f64::MAX, f64::MAX)),
            (_, t) => t.clone(),
        }),
    ));
    if tier == Tier::Thorough {
        out.push(("zero-width", variant(&|_, _, t| match t {
            DataType::Integer(_) => DataType::integer_value(0),
            DataType::Float(_) => DataType::float_value(0.0),
            DataType::Optional(_) => DataType::optional(DataType::float_value(0.0)),
            t => t.clone(),
        })));
        out.push(("many-intervals", variant(&|_, c, t| match (c, t) {
            ("age", _) => DataType::Integer(Intervals::from_values((0..129).map(|i| 3 * i as i64).collect::<Vec<_>>())),
            ("amount", _) | ("price", _) | ("k", _) => DataType::Float(Intervals::from_values((0..129).map(|i| 0.5 * i as f64).collect::<Vec<_>>())),
            (_, t) => t.clone(),
        })));
        out.push(("empty-sets", variant(&|_, c, t| match (c, t) {
            ("age", _) => DataType::Integer(Intervals::empty()),
            ("city", _) => DataType::Text(Intervals::empty()),
            (_, t) => t.clone(),
        })));
        out.push(("all-nullable", variant(&|_, _, t| match t {
            DataType::Optional(_) => t.clone(),
            t => DataType::optional(t.clone()),
        })));
    }
    out
}

pub fn privacy_unit() -> PrivacyUnit {
    PrivacyUnit::from((
        vec![
            ("users", vec![], "id"),
            ("orders", vec![("user_id", "users", "id")], "id"),
            ("items", vec![("order_id", "orders", "id"), ("user_id", "users", "id")], "id"),
            ("m", vec![], PrivacyUnit::privacy_unit_row()),
        ],
        false,
    ))
}

/// the same privacy unit, referring to the tables by their Qrlew names of `World::relations_named`
pub fn privacy_unit_named() -> PrivacyUnit {
    PrivacyUnit::from((
        vec![
            ("people", vec![], "id"),
            ("purchases", vec![("user_id", "people", "id")], "id"),
            ("lines", vec![("order_id", "purchases", "id"), ("user_id", "people", "id")], "id"),
            ("mm", vec![], PrivacyUnit::privacy_unit_row()),
        ],
        false,
    ))
}

fn dp_params(tier: Tier) -> Vec<(&'static str, DpParameters)> {
    let mut v = vec![
        ("eps1-delta1e-3", DpParameters::from_epsilon_delta(1.0, 1e-3)),
        ("zero-budget", DpParameters::from_epsilon_delta(0.0, 0.0)),
        ("zero-delta", DpParameters::from_epsilon_delta(1.0, 0.0)),
    ];
    if tier == Tier::Thorough {
        v.push(("zero-epsilon", DpParameters::from_epsilon_delta(0.0, 1e-3)));
        v.push(("tau-share-0", DpParameters::from_epsilon_delta(1.0, 1e-3).with_tau_thresholding_share(0.0)));
        v.push(("tau-share-1", DpParameters::from_epsilon_delta(1.0, 1e-3).with_tau_thresholding_share(1.0)));
        v.push(("zero-groups", DpParameters::from_epsilon_delta(1.0, 1e-3).with_max_privacy_unit_groups(0)));
        v.push(("zero-multiplicity", DpParameters::from_epsilon_delta(1.0, 1e-3).with_privacy_unit_max_multiplicity(0.0).with_privacy_unit_max_multiplicity_share(0.0)));
        v.push(("huge-epsilon", DpParameters::from_epsilon_delta(1e300, 1.0)));
    }
    v
}

/// the outcome of one pipeline run: the stage reached and, if it stopped, why
fn pipeline(sql: &str, relations: &Hierarchy<Arc<Relation>>, tier: Tier) -> Vec<(String, String)> {
    // returns (stage, outcome) for every stage attempted: outcome "ok" | "err" | "panic <site>"
    let mut log = vec![];
    let mut push = |stage: &str, r: Result<bool, Panic>| -> bool {
        match r {
            Ok(true) => {
                log.push((stage.to_string(), "ok".to_string()));
                true
            }
            Ok(false) => {
                log.push((stage.to_string(), "err".to_string()));
                false
            }
            Err(p) => {
                log.push((stage.to_string(), format!("panic {}", p.site())));
                false
            }
        }
    };
    let mut query = None;
    if !push("parse", guarded(|| parse(sql).map(|q| query = Some(q)).is_ok())) {
        return log;
    }
    let query = query.unwrap();
    let mut relation: Option<Relation> = None;
    if !push("relation", guarded(|| Relation::try_from(query.with(relations)).map(|r| relation = Some(r)).is_ok())) {
        return log;
    }
    let relation = relation.unwrap();
    push(
        "schema",
        guarded(|| {
            let _ = relation.schema().to_string();
            let _ = relation.size().to_string();
            let _ = format!("{}", relation);
            true
        }),
    );
    push("render", guarded(|| !ast::Query::from(&relation).to_string().is_empty()));
    for (sname, strat) in [("hard", Strategy::Hard), ("soft", Strategy::Soft)] {
        let stage = format!("pup-{sname}");
        push(
            &stage,
            guarded(|| match relation.rewrite_as_privacy_unit_preserving(relations, None, privacy_unit(), DpParameters::from_epsilon_delta(1.0, 1e-3), Some(strat)) {
                Ok(r) => !ast::Query::from(r.relation()).to_string().is_empty(),
                Err(_) => false,
            }),
        );
    }
    for (pname, dp) in dp_params(tier) {
        let stage = format!("dp[{pname}]");
        push(
            &stage,
            guarded(|| match relation.rewrite_with_differential_privacy(relations, None, privacy_unit(), dp.clone()) {
                Ok(r) => {
                    let _ = r.dp_event().to_string();
                    !ast::Query::from(r.relation()).to_string().is_empty()
                }
                Err(_) => false,
            }),
        );
    }
    log
}

fn leaf_tables(r: &Relation, out: &mut Vec<String>) {
    match r {
        Relation::Table(t) => out.push(t.name().to_string()),
        r => {
            for i in r.inputs() {
                leaf_tables(i, out)
            }
        }
    }
}

// ---------------------------------------------------------------------------------------
// child process: runs cases [from..] of a shard, one JSON line per case (START line first)

pub fn child(tier: Tier, shard: usize, nshards: usize, from: usize, out_path: &str) {
    let all = cases(tier);
    let worlds = worlds(tier);
    let mut f = std::fs::OpenOptions::new().create(true).append(true).open(out_path).expect("child out file");
    let mut idx = 0usize;
    for (ci, case) in all.iter().enumerate() {
        for (wname, relations) in &worlds {
            let my = idx % nshards == shard;
            let this = idx;
            idx += 1;
            if !my || this < from {
                continue;
            }
            let _ = writeln!(f, "{}", json!({"start": this, "case": ci, "world": wname}));
            let _ = f.flush();
            let t0 = std::time::Instant::now();
            let log = pipeline(&case.sql, relations, tier);
            let _ = writeln!(f, "{}", json!({"done": this, "case": ci, "world": wname, "log": log, "ms": t0.elapsed().as_millis() as u64}));
            let _ = f.flush();
        }
    }
    let _ = writeln!(f, "{}", json!({"finished": true}));
}

// ---------------------------------------------------------------------------------------
// parent

fn supervise(tier: Tier, nshards: usize, r: &mut Report) -> Vec<serde_json::Value> {
    let exe = std::env::current_exe().expect("exe");
    let dir = format!("{VERIF}/.build/c18");
    let _ = std::fs::create_dir_all(&dir);
    let per_case_timeout = std::time::Duration::from_secs(match tier {
        Tier::Quick => 20,
        Tier::Thorough => 40,
    });
    let results = std::sync::Mutex::new(vec![]);
    let incidents = std::sync::Mutex::new(vec![]);
    std::thread::scope(|s| {
        for shard in 0..nshards {
            let exe = exe.clone();
            let dir = dir.clone();
            let results = &results;
            let incidents = &incidents;
            s.spawn(move || {
                let out = format!("{dir}/shard-{shard}.jsonl");
                let _ = std::fs::remove_file(&out);
                let mut from = 0usize;
                loop {
                    let mut child = std::process::Command::new(&exe)
                        .args(["C18-child", tier.name(), &shard.to_string(), &nshards.to_string(), &from.to_string(), &out])
                        .stdout(std::process::Stdio::null())
                        .stderr(std::process::Stdio::null())
                        .spawn()
                        .expect("spawn child");
                    let mut last_len = 0u64;
                    let mut last_change = std::time::Instant::now();
                    let status = loop {
                        match child.try_wait() {
                            Ok(Some(st)) => break Some(st),
                            Ok(None) => {}
                            Err(_) => break None,
                        }
                        let len = std::fs::metadata(&out).map(|m| m.len()).unwrap_or(0);
                        if len != last_len {
                            last_len = len;
                            last_change = std::time::Instant::now();
                        } else if last_change.elapsed() > per_case_timeout {
                            let _ = child.kill();
                            let _ = child.wait();
                            break None;
                        }
                        std::thread::sleep(std::time::Duration::from_millis(50));
                    };
                    // read the file: find the last started-but-not-done case
                    let text = std::fs::read_to_string(&out).unwrap_or_default();
                    let lines: Vec<serde_json::Value> = text.lines().filter_map(|l| serde_json::from_str(l).ok()).collect();
                    let finished = lines.iter().any(|l| l.get("finished").is_some());
                    if finished {
                        results.lock().unwrap().extend(lines.into_iter().filter(|l| l.get("done").is_some()));
                        break;
                    }
                    // the child died or stalled in a case
                    let last_start = lines.iter().rev().find(|l| l.get("start").is_some()).cloned();
                    let last_done = lines.iter().rev().find(|l| l.get("done").is_some()).and_then(|l| l["done"].as_u64());
                    match last_start {
                        Some(st) if Some(st["start"].as_u64().unwrap()) != last_done => {
                            let how = match status {
                                None => "timeout".to_string(),
                                Some(st) => format!("abort({st})"),
                            };
                            incidents.lock().unwrap().push(json!({"case": st["case"], "world": st["world"], "how": how}));
                            from = st["start"].as_u64().unwrap() as usize + 1;
                        }
                        _ => {
                            // died outside a case: give up on this shard
                            incidents.lock().unwrap().push(json!({"shard": shard, "how": "child died outside a case"}));
                            results.lock().unwrap().extend(lines.into_iter().filter(|l| l.get("done").is_some()));
                            break;
                        }
                    }
                }
            });
        }
    });
    let inc = incidents.into_inner().unwrap();
    r.set("supervisor_incidents", json!(inc.clone()));
    let mut res = results.into_inner().unwrap();
    for i in inc {
        res.push(json!({"incident": i}));
    }
    res
}

pub fn run(ctx: &Ctx) -> Report {
    let mut r = Report::new("exploration");
    let all = cases(ctx.tier);
    let worlds_n = worlds(ctx.tier).len();
    if let Some(id) = &ctx.replay {
        // replay: run the matching case(s) in process
        for case in all.iter().filter(|c| ctx.wants(&c.sql) || id.starts_with('~')) {
            if !ctx.wants(&case.sql) {
                continue;
            }
            for (wname, relations) in worlds(ctx.tier) {
                let log = pipeline(&case.sql, &relations, ctx.tier);
                judge(case, wname, &log, &mut r);
                r.evaluations += 1;
            }
        }
        return r;
    }
    let results = supervise(ctx.tier, 16, &mut r);
    for res in &results {
        if let Some(inc) = res.get("incident") {
            if let Some(ci) = inc["case"].as_u64() {
                let case = &all[ci as usize];
                r.violation(
                    format!("{} :: {}", inc["how"].as_str().unwrap_or("?").split('(').next().unwrap_or("?"), case.sql),
                    &case.sql,
                    json!({"query": case.sql, "world": inc["world"], "how": inc["how"], "note": "the child process running this case died or made no progress within the per-case wall clock"}),
                );
            } else {
                r.machinery_errors.push(format!("C18 supervisor: {}", inc));
            }
            continue;
        }
        let case = &all[res["case"].as_u64().unwrap() as usize];
        let wname = res["world"].as_str().unwrap_or("?").to_string();
        let log: Vec<(String, String)> = res["log"].as_array().unwrap().iter().map(|p| (p[0].as_str().unwrap().to_string(), p[1].as_str().unwrap().to_string())).collect();
        r.evaluations += 1;
        r.add_count("stages_run", log.len() as u64);
        if log.iter().any(|(s, o)| s.starts_with("dp[") && o == "ok") {
            r.reach("dp_rewriting_succeeded_by_world", &wname);
        }
        if log.iter().any(|(s, o)| s.starts_with("pup") && o == "ok") {
            r.reach("pup_rewriting_succeeded_by_world", &wname);
        }
        for (s, o) in &log {
            r.reach("stage_outcomes", &format!("{}:{}", s.split('[').next().unwrap_or(s), o.split(' ').next().unwrap_or(o)));
        }
        if r.samples.len() < 3 && log.len() >= 8 && wname != "standard" {
            r.sample(json!({"case": case.sql, "kind": case.kind, "world": wname, "stages": log.iter().map(|(s, o)| format!("{s}:{}", o.split(' ').next().unwrap_or(o))).collect::<Vec<_>>()}));
        }
        judge(case, &wname, &log, &mut r);
    }
    if (results.len() as u64) < (all.len() * worlds_n) as u64 {
        r.exhaustive = false;
    }
    r.distinct_nontrivial = all.len() as u64;
    // unsupported constructs accepted: they must read every table they name and agree with SQLite
    probe_semantics(ctx, &mut r);
    r.set("cases", all.len() as u64);
    r.set("worlds", worlds_n as u64);
    r.rule = "cases = E-sql queries + name-clash queries + one probe per construct the fragment does not claim (unknown function, comma join, window, sub-query in an expression, GROUP BY ALL/ROLLUP, qualified wildcard, nested set operations, exotic operators, table functions, semi/anti joins, DISTINCT ON, TOP, FILTER, WITHIN GROUP, duplicate output names, division by a zero-containing range, ...) x schema variants (standard, unbounded, zero-containing, i64/f64 extremes; thorough: zero-width, 129-interval sets, empty value sets, all nullable) x stages parse -> relation -> schema -> render -> PUP (hard, soft) -> DP (several DpParameters incl. zero budgets); every (case, schema) runs in a supervised child process. oracle: every stage ends Ok or Err; Panic / abort / timeout is a violation; an accepted unsupported construct must still read every table it names and agree with SQLite. non-trivial = distinct cases".into();
    r.assumptions = vec!["per-case wall clock of 20 s (quick) / 40 s (thorough) stands for 'loops'".into()];
    r
}

/// Signature of a panic: the per-query one (`panic stage=.. <site> :: <sql>`) when that is a known finding; else the
/// root-cause class `panic stage=.. <site> @world=<schema variant>` when that is one (a known panic site reached by
/// another query under the same schema variant and pipeline stage); else the per-query one, a new violation.
fn judge(case: &Case, world: &str, log: &[(String, String)], r: &mut Report) {
    thread_local! {
        static KNOWN: std::collections::BTreeSet<String> = crate::features::open_known("C18");
    }
    for (stage, outcome) in log {
        if let Some(site) = outcome.strip_prefix("panic ") {
            let st = stage.split('[').next().unwrap_or(stage);
            let kind = format!("panic stage={st} {site}");
            let sig = KNOWN.with(|k| crate::features::resolve(&kind, &case.sql, &[format!("world={world}")], k));
            r.violation(
                sig,
                &case.sql,
                json!({"query": case.sql, "kind": case.kind, "world": world, "stage": stage, "panic": site, "stages": log.iter().map(|(s, o)| format!("{s}:{}", o.split(' ').next().unwrap_or(o))).collect::<Vec<_>>()}),
            );
        }
    }
}

/// Accepted probes: every table named by the query is read by the relation, and where SQLite can
/// run both texts the results agree on every small database.
fn probe_semantics(_ctx: &Ctx, r: &mut Report) {
    let world = World::standard();
    let relations = world.relations();
    let e = Engine::new();
    let empty: crate::world::Db = world.tables.iter().map(|t| (t.name, vec![])).collect();
    e.load(&world.load_spec(&empty)).expect("create tables");
    for case in probes() {
        let c = match compile(&case.sql, &relations) {
            Outcome::Ok(c) => c,
            Outcome::Err(_) => {
                r.add_count("probes_reported_as_error", 1);
                continue;
            }
            Outcome::Panic(_) => {
                r.add_count("probes_panicking", 1);
                continue;
            }
        };
        r.add_count("probes_accepted", 1);
        let mut leaves = vec![];
        leaf_tables(&c.relation, &mut leaves);
        let missing: Vec<&&str> = case.tables.iter().filter(|t| !leaves.iter().any(|l| l == **t)).collect();
        if !missing.is_empty() {
            r.violation(
                format!("unsupported-construct-accepted table-dropped :: {}", case.sql),
                &case.sql,
                json!({"query": case.sql, "tables_named": case.tables, "tables_read_by_the_relation": leaves, "rendered": c.rendered}),
            );
            continue;
        }
        // semantic comparison where SQLite runs the original
        if e.conn.prepare(&case.sql).is_err() {
            r.add_count("probes_accepted_not_runnable_on_sqlite", 1);
            continue;
        }
        for db in world.databases(&case.tables, 2) {
            e.load(&world.load_spec(&db)).expect("load");
            e.conn.flush_prepared_statement_cache();
            let (o, n) = (e.query(&case.sql), e.query(&c.rendered));
            match (o, n) {
                (Ok(o), Ok(n)) => {
                    if o.cols.len() != n.cols.len() || !same_multiset(&o, &n, 1e-9) {
                        r.violation(
                            format!("unsupported-construct-accepted results-differ :: {}", case.sql),
                            &case.sql,
                            json!({"query": case.sql, "rendered": c.rendered, "original_result": o.show(), "rendered_result": n.show(), "database": crate::world::show_db(&db)}),
                        );
                        break;
                    }
                }
                (Ok(o), Err(err)) => {
                    r.violation(
                        format!("unsupported-construct-accepted rendered-fails :: {}", case.sql),
                        &case.sql,
                        json!({"query": case.sql, "rendered": c.rendered, "error": err, "original_result": o.show()}),
                    );
                    break;
                }
                _ => break,
            }
        }
    }
}
