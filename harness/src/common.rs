//! Shared plumbing: run context, reports, evidence files, known findings, panic capture.
use serde_json::{json, Map, Value as J};
use std::cell::RefCell;
use std::collections::{BTreeMap, BTreeSet};
use std::panic::{catch_unwind, AssertUnwindSafe};
use std::path::PathBuf;
use std::time::Instant;

pub const VERIF: &str = "/verif";

#[derive(Clone, Copy, PartialEq, Eq, Debug)]
pub enum Tier {
    Quick,
    Thorough,
}

impl Tier {
    pub fn name(self) -> &'static str {
        match self {
            Tier::Quick => "quick",
            Tier::Thorough => "thorough",
        }
    }
    pub fn pick<T>(self, quick: T, thorough: T) -> T {
        match self {
            Tier::Quick => quick,
            Tier::Thorough => thorough,
        }
    }
}

pub struct Ctx {
    pub id: String,
    pub tier: Tier,
    pub seed: u64,
    /// When replaying: only the case with this id is run
    pub replay: Option<String>,
    pub start: Instant,
    /// wall-clock budget in seconds for enumeration loops that are capped
    pub budget_s: f64,
}

impl Ctx {
    pub fn wants(&self, case_id: &str) -> bool {
        match &self.replay {
            None => true,
            // development aid: `--only <substring>` runs every case whose id contains the substring
            Some(r) if r.starts_with("~") => case_id.contains(&r[1..]),
            Some(r) => r == case_id,
        }
    }
    pub fn elapsed(&self) -> f64 {
        self.start.elapsed().as_secs_f64()
    }
    pub fn out_of_budget(&self) -> bool {
        self.elapsed() > self.budget_s
    }
}

#[derive(Clone, Debug)]
pub struct Violation {
    /// root-cause signature, the key of known_findings.json
    pub signature: String,
    /// id of the case in the canonical enumeration (replayable)
    pub case_id: String,
    pub detail: J,
}

pub struct Report {
    pub level: &'static str,
    pub evaluations: u64,
    pub distinct_nontrivial: u64,
    pub rule: String,
    pub samples: Vec<J>,
    pub exhaustive: bool,
    pub extra: Map<String, J>,
    pub assumptions: Vec<String>,
    pub violations: BTreeMap<String, (u64, Vec<Violation>)>,
    /// machinery failures (never verdicts): exit 2
    pub machinery_errors: Vec<String>,
}

impl Report {
    pub fn new(level: &'static str) -> Report {
        Report {
            level,
            evaluations: 0,
            distinct_nontrivial: 0,
            rule: String::new(),
            samples: vec![],
            exhaustive: true,
            extra: Map::new(),
            assumptions: vec![],
            violations: BTreeMap::new(),
            machinery_errors: vec![],
        }
    }
    pub fn set(&mut self, key: &str, value: impl Into<J>) {
        self.extra.insert(key.to_string(), value.into());
    }
    pub fn add_count(&mut self, key: &str, n: u64) {
        let cur = self.extra.get(key).and_then(|v| v.as_u64()).unwrap_or(0);
        self.extra.insert(key.to_string(), json!(cur + n));
    }
    pub fn violation(&mut self, signature: impl Into<String>, case_id: impl Into<String>, detail: J) {
        let signature: String = signature.into();
        if let Ok(path) = std::env::var("QV_DUMP") {
            use std::io::Write;
            if let Ok(mut f) = std::fs::OpenOptions::new().create(true).append(true).open(path) {
                let line = format!("{}\t{}\n", signature, detail);
                let _ = f.write_all(line.as_bytes());
            }
        }
        let e = self.violations.entry(signature.clone()).or_insert((0, vec![]));
        e.0 += 1;
        if e.1.len() < 4 {
            e.1.push(Violation {
                signature,
                case_id: case_id.into(),
                detail,
            });
        }
    }
    pub fn sample(&mut self, s: J) {
        if self.samples.len() < 8 {
            self.samples.push(s);
        }
    }
    /// merge counters of a partial report (from a parallel shard)
    pub fn merge(&mut self, other: Report) {
        self.evaluations += other.evaluations;
        self.distinct_nontrivial += other.distinct_nontrivial;
        for s in other.samples {
            self.sample(s);
        }
        self.exhaustive &= other.exhaustive;
        for (k, v) in other.extra {
            match (self.extra.get(&k).cloned(), &v) {
                (Some(J::Number(a)), J::Number(b)) if a.is_u64() && b.is_u64() => {
                    self.extra
                        .insert(k, json!(a.as_u64().unwrap() + b.as_u64().unwrap()));
                }
                (Some(J::Object(mut a)), J::Object(b)) => {
                    for (kk, vv) in b {
                        let cur = a.get(kk).and_then(|x| x.as_u64());
                        match (cur, vv.as_u64()) {
                            (Some(x), Some(y)) => {
                                a.insert(kk.clone(), json!(x + y));
                            }
                            (None, _) => {
                                a.insert(kk.clone(), vv.clone());
                            }
                            _ => {}
                        }
                    }
                    self.extra.insert(k, J::Object(a));
                }
                (None, _) => {
                    self.extra.insert(k, v);
                }
                _ => {}
            }
        }
        for (sig, (n, vs)) in other.violations {
            let e = self.violations.entry(sig).or_insert((0, vec![]));
            e.0 += n;
            for v in vs {
                if e.1.len() < 4 {
                    e.1.push(v);
                }
            }
        }
        self.machinery_errors.extend(other.machinery_errors);
    }
    /// Increment a counter inside a map-valued extra key (reach counters)
    pub fn reach(&mut self, map_key: &str, key: &str) {
        let entry = self
            .extra
            .entry(map_key.to_string())
            .or_insert_with(|| J::Object(Map::new()));
        if let J::Object(m) = entry {
            let cur = m.get(key).and_then(|x| x.as_u64()).unwrap_or(0);
            m.insert(key.to_string(), json!(cur + 1));
        }
    }
}

#[derive(Clone, Debug)]
pub struct Finding {
    pub property: String,
    pub signature: String,
    pub status: String,
    pub what: String,
}

pub fn load_findings() -> Vec<Finding> {
    let path = format!("{VERIF}/known_findings.json");
    let text = match std::fs::read_to_string(&path) {
        Ok(t) => t,
        Err(_) => return vec![],
    };
    let j: J = serde_json::from_str(&text).expect("known_findings.json is not valid JSON");
    j["findings"]
        .as_array()
        .cloned()
        .unwrap_or_default()
        .into_iter()
        .map(|f| Finding {
            property: f["property"].as_str().unwrap_or("").to_string(),
            signature: f["signature"].as_str().unwrap_or("").to_string(),
            status: f["status"].as_str().unwrap_or("open").to_string(),
            what: f["what"].as_str().unwrap_or("").to_string(),
        })
        .collect()
}

fn sanitize(s: &str) -> String {
    let mut out: String = s
        .chars()
        .map(|c| if c.is_ascii_alphanumeric() || c == '-' || c == '.' { c } else { '_' })
        .collect();
    if out.len() > 100 || out != s {
        // keep a prefix and add a hash of the whole signature so that distinct signatures never
        // share a replay file
        use std::hash::{Hash, Hasher};
        let mut h = std::collections::hash_map::DefaultHasher::new();
        s.hash(&mut h);
        out.truncate(100);
        out.push_str(&format!("_{:016x}", h.finish()));
    }
    out
}

/// Write evidence, replays; print verdict lines; return the process exit code.
pub fn finish(ctx: &Ctx, report: Report) -> i32 {
    let findings = load_findings();
    let open: BTreeMap<String, Finding> = findings
        .iter()
        .filter(|f| f.property == ctx.id && f.status == "open")
        .map(|f| (f.signature.clone(), f.clone()))
        .collect();
    // group violations by signature
    let by_sig = &report.violations;
    let mut new_violations = 0usize;
    let mut known_hit: BTreeSet<String> = BTreeSet::new();
    let replay_dir = PathBuf::from(format!("{VERIF}/replays/{}", ctx.id));
    let _ = std::fs::create_dir_all(&replay_dir);
    let mut lines = vec![];
    for (sig, (count, vs)) in by_sig {
        let first = &vs[0];
        let path = replay_dir.join(format!("{}.json", sanitize(sig)));
        let body = json!({
            "property": ctx.id,
            "signature": sig,
            "case_id": first.case_id,
            "tier": ctx.tier.name(),
            "occurrences_in_this_run": count,
            "detail": first.detail,
            "other_cases": vs.iter().skip(1).take(5).map(|v| json!({"case_id": v.case_id, "detail": v.detail})).collect::<Vec<_>>(),
        });
        let _ = std::fs::write(&path, serde_json::to_string_pretty(&body).unwrap());
        if let Some(f) = open.get(sig) {
            known_hit.insert(sig.clone());
            lines.push(format!(
                "KNOWN-FINDING: property={} signature={} occurrences={} -- {}",
                ctx.id,
                sig,
                count,
                f.what
            ));
        } else {
            new_violations += 1;
            lines.push(format!(
                "VIOLATION property={} replay={}",
                ctx.id,
                path.display()
            ));
            lines.push(format!("  signature: {sig}"));
            lines.push(format!("  case: {}", first.case_id));
            let d = first.detail.to_string();
            lines.push(format!("  detail: {}", d.chars().take(600).collect::<String>()));
        }
    }
    // Open findings that were NOT re-exhibited by a full (non replay) run are reported, not failed:
    let mut stale = vec![];
    if ctx.replay.is_none() {
        for sig in open.keys() {
            if !known_hit.contains(sig) {
                stale.push(sig.clone());
            }
        }
    }
    // evidence
    let mut coverage = Map::new();
    coverage.insert("evaluations".into(), json!(report.evaluations));
    coverage.insert("distinct_nontrivial".into(), json!(report.distinct_nontrivial));
    coverage.insert("rule".into(), json!(report.rule));
    coverage.insert("samples".into(), J::Array(report.samples.clone()));
    coverage.insert("exhaustive".into(), json!(report.exhaustive));
    for (k, v) in &report.extra {
        coverage.insert(k.clone(), v.clone());
    }
    coverage.insert(
        "known_findings_reproduced".into(),
        json!(known_hit.iter().collect::<Vec<_>>()),
    );
    coverage.insert("known_findings_not_reproduced_by_this_tier".into(), json!(stale));
    coverage.insert(
        "violation_signatures".into(),
        json!(by_sig.iter().map(|(k, v)| (k.clone(), v.0)).collect::<BTreeMap<_, _>>()),
    );
    let evidence = json!({
        "property_id": ctx.id,
        "tier": ctx.tier.name(),
        "seed": ctx.seed,
        "level": report.level,
        "coverage": J::Object(coverage),
        "assumptions": report.assumptions,
        "wall_s": ctx.elapsed(),
        "violations": new_violations,
        "machinery_errors": report.machinery_errors,
    });
    if ctx.replay.is_none() {
        let _ = std::fs::create_dir_all(format!("{VERIF}/evidence"));
        std::fs::write(
            format!("{VERIF}/evidence/{}.json", ctx.id),
            serde_json::to_string_pretty(&evidence).unwrap(),
        )
        .expect("cannot write evidence");
    }
    for l in &lines {
        println!("{l}");
    }
    println!(
        "{} {}: evaluations={} distinct_nontrivial={} exhaustive={} new_violations={} known={} wall={:.1}s",
        ctx.id,
        ctx.tier.name(),
        report.evaluations,
        report.distinct_nontrivial,
        report.exhaustive,
        new_violations,
        known_hit.len(),
        ctx.elapsed()
    );
    if ctx.replay.is_some() { println!("extra: {}", serde_json::to_string(&report.extra).unwrap().chars().take(1500).collect::<String>()); }
    for e in &report.machinery_errors {
        eprintln!("MACHINERY-ERROR {}: {}", ctx.id, e);
    }
    // a violation that was exhibited stands whatever else went wrong in the run; a run with machinery errors and no
    // violation is not a verdict (exit 2)
    if new_violations > 0 {
        1
    } else if !report.machinery_errors.is_empty() {
        2
    } else {
        0
    }
}

// ---------------------------------------------------------------------------------------
// Panic capture

thread_local! {
    static LAST_PANIC: RefCell<Option<String>> = RefCell::new(None);
}

pub fn install_panic_hook() {
    std::panic::set_hook(Box::new(|info| {
        let loc = info
            .location()
            .map(|l| format!("{}:{}", l.file(), l.line()))
            .unwrap_or_else(|| "?".into());
        let msg = if let Some(s) = info.payload().downcast_ref::<&str>() {
            s.to_string()
        } else if let Some(s) = info.payload().downcast_ref::<String>() {
            s.clone()
        } else {
            "?".to_string()
        };
        let short: String = msg.chars().take(160).collect();
        LAST_PANIC.with(|p| *p.borrow_mut() = Some(format!("{loc}: {short}")));
    }));
}

/// location (`file:line`) and message of a panic
#[derive(Clone, Debug)]
pub struct Panic {
    pub location: String,
    pub message: String,
}

impl Panic {
    /// `src/...:line` relative to the repository
    /// A root-cause label that survives unrelated edits of the file: `path[message]` without the
    /// line number (lines shift when code is inserted above).
    pub fn site(&self) -> String {
        let l = &self.location;
        let file = l.rsplitn(2, ':').nth(1).unwrap_or(l);
        let msg: String = self.message.chars().take(70).collect::<String>().replace(' ', "_");
        if let Some(f) = file.strip_prefix("/repo/") {
            format!("{f}[{msg}]")
        } else if file.starts_with("src/") {
            format!("{file}[{msg}]")
        } else if let Some(i) = file.find("/library/") {
            format!("std:{}[{msg}]", &file[i + "/library/".len()..])
        } else if let Some(i) = file.find("/registry/src/") {
            let rest = &file[i + "/registry/src/".len()..];
            format!("dep:{}[{msg}]", rest.splitn(2, '/').nth(1).unwrap_or(rest))
        } else {
            format!("{file}[{msg}]")
        }
    }
    /// file:line, for humans
    pub fn at(&self) -> String {
        self.location.clone()
    }
}

pub fn guarded<T>(f: impl FnOnce() -> T) -> Result<T, Panic> {
    LAST_PANIC.with(|p| *p.borrow_mut() = None);
    match catch_unwind(AssertUnwindSafe(f)) {
        Ok(v) => Ok(v),
        Err(_) => {
            let s = LAST_PANIC
                .with(|p| p.borrow_mut().take())
                .unwrap_or_else(|| "?: ?".into());
            let (loc, msg) = match s.split_once(": ") {
                Some((a, b)) => (a.to_string(), b.to_string()),
                None => (s.clone(), String::new()),
            };
            Err(Panic {
                location: loc,
                message: msg,
            })
        }
    }
}

/// Split `n` items over the rayon pool and merge partial reports
pub fn par_reports<I, F>(items: Vec<I>, level: &'static str, f: F) -> Report
where
    I: Send,
    F: Fn(I, &mut Report) + Sync + Send,
{
    use rayon::prelude::*;
    let parts: Vec<Report> = items
        .into_par_iter()
        .map(|it| {
            let mut r = Report::new(level);
            f(it, &mut r);
            r
        })
        .collect();
    let mut total = Report::new(level);
    for p in parts {
        total.merge(p);
    }
    total
}

/// Like `par_reports`, but every work item runs on a fresh OS thread, so that the library's
/// `thread_local!` function tables (which contain poisonable mutexes and other state) are rebuilt
/// for each item: the outcome of an item cannot depend on which items ran before it on the same
/// worker.
pub fn par_reports_isolated<I, F>(items: Vec<I>, level: &'static str, f: F) -> Report
where
    I: Send,
    F: Fn(I, &mut Report) + Sync + Send,
{
    let f = &f;
    par_reports(items, level, move |it, r| {
        let mut inner = Report::new(level);
        std::thread::scope(|s| {
            let h = std::thread::Builder::new()
                .stack_size(64 << 20)
                .spawn_scoped(s, || {
                    install_thread_panic_capture();
                    f(it, &mut inner);
                })
                .expect("cannot spawn thread");
            if h.join().is_err() {
                r.machinery_errors.push("a work item panicked outside a guarded call".into());
            }
        });
        r.merge(inner);
    })
}

pub fn install_thread_panic_capture() {}
