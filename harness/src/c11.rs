//! C11 — data-type lattice operations soundly over-approximate set operations.
//! (a) explicit-state search (stateright BFS to fixpoint) over histories of interval-set operations on
//!     the real `Intervals<B>`, against an independent interval-list reference, from seeds that sit at
//!     126/127 intervals so that short histories cross the real capacity (128);
//! (b) exhaustive pairs of data types (all 21 variants, depth <= 2) x a universe of values.
use crate::common::*;
use crate::refm::*;
use qrlew::data_type::intervals::{Bound, Intervals};
use qrlew::data_type::{value::Value, DataType, DataTyped, Variant as _};
use serde_json::json;
use stateright::{Checker, Model, Property};
use std::hash::{Hash, Hasher};
use std::sync::atomic::{AtomicU64, Ordering};
use std::sync::Mutex;

// ---------------------------------------------------------------------------------------
// (a) interval-set histories

/// the reference: a boring list of closed intervals, normalised by sort + merge of overlapping ones
#[derive(Clone, Debug)]
struct RefIv<B>(Vec<[B; 2]>);

impl<B: Bound> RefIv<B> {
    fn normalise(mut v: Vec<[B; 2]>) -> RefIv<B> {
        v.sort_by(|x, y| x[0].partial_cmp(&y[0]).unwrap());
        let mut out: Vec<[B; 2]> = vec![];
        for [lo, hi] in v {
            match out.last_mut() {
                Some(last) if lo <= last[1] => {
                    if hi > last[1] {
                        last[1] = hi;
                    }
                }
                _ => out.push([lo, hi]),
            }
        }
        RefIv(out)
    }
    fn union(&self, o: &RefIv<B>) -> RefIv<B> {
        let mut v = self.0.clone();
        v.extend(o.0.iter().cloned());
        RefIv::normalise(v)
    }
    fn intersection(&self, o: &RefIv<B>) -> RefIv<B> {
        let mut v = vec![];
        for [a, b] in &self.0 {
            for [c, d] in &o.0 {
                let lo = if a > c { a.clone() } else { c.clone() };
                let hi = if b < d { b.clone() } else { d.clone() };
                if lo <= hi {
                    v.push([lo, hi]);
                }
            }
        }
        RefIv::normalise(v)
    }
    /// every interval of self lies inside one interval of `sup`
    fn inside(&self, sup: &[[B; 2]]) -> bool {
        self.0
            .iter()
            .all(|[a, b]| sup.iter().any(|[c, d]| c <= a && b <= d))
    }
}

#[derive(Clone, Debug)]
struct IvState<B: Bound> {
    imp: Intervals<B>,
}

impl<B: Bound> Hash for IvState<B> {
    fn hash<H: Hasher>(&self, state: &mut H) {
        for [a, b] in self.imp.iter() {
            Bound::hash(a, state);
            Bound::hash(b, state);
        }
    }
}
impl<B: Bound> PartialEq for IvState<B> {
    fn eq(&self, o: &Self) -> bool {
        self.imp[..] == o.imp[..]
    }
}
impl<B: Bound> Eq for IvState<B> {}

#[derive(Clone, Debug, PartialEq)]
enum IvAction {
    UnionInterval(usize, usize),
    IntersectionInterval(usize, usize),
    Union(usize),
    Intersection(usize),
    Simplify,
    IntoInterval,
}

struct IvModel<B: Bound> {
    name: &'static str,
    grid: Vec<B>,
    family: Vec<Vec<[B; 2]>>,
    seeds: Vec<Vec<[B; 2]>>,
    transitions: AtomicU64,
    crossed_up: AtomicU64,
    shrunk_after_collapse: AtomicU64,
    max_len: AtomicU64,
    violations: Mutex<Vec<(String, serde_json::Value)>>,
    /// one capacity-crossing transition of this run, written out
    sample: Mutex<Option<serde_json::Value>>,
}

const CAPACITY: usize = 128;

fn show<B: Bound>(p: &[[B; 2]]) -> String {
    let s: Vec<String> = p.iter().map(|[a, b]| format!("[{a},{b}]")).collect();
    if s.len() > 12 {
        format!("{} … {} ({} intervals)", s[..4].join(""), s[s.len() - 3..].join(""), s.len())
    } else {
        s.join("")
    }
}

impl<B: Bound + Send + Sync + 'static> IvModel<B> {
    fn record(&self, sig: &str, pre: &IvState<B>, action: &IvAction, post: Option<&Intervals<B>>, rf: Option<&RefIv<B>>, note: String) {
        let mut v = self.violations.lock().unwrap();
        if v.len() < 200 {
            v.push((
                format!("intervals<{}> {}", self.name, sig),
                json!({"bound": self.name, "pre_state": show(&pre.imp[..]), "action": format!("{:?}", action),
                       "action_args": self.describe(action), "post_state": post.map(|p| show(&p[..])), "exact_result": rf.map(|r| show(&r.0)), "note": note}),
            ));
        }
    }
    fn describe(&self, a: &IvAction) -> String {
        match a {
            IvAction::UnionInterval(i, j) | IvAction::IntersectionInterval(i, j) => format!("[{},{}]", self.grid[*i], self.grid[*j]),
            IvAction::Union(k) | IvAction::Intersection(k) => show(&self.family[*k]),
            _ => String::new(),
        }
    }
}

impl<B: Bound + Send + Sync + 'static> Model for IvModel<B> {
    type State = IvState<B>;
    type Action = IvAction;

    fn init_states(&self) -> Vec<Self::State> {
        let mut v = vec![IvState { imp: Intervals::empty() }, IvState { imp: Intervals::full() }];
        for s in &self.seeds {
            // seeds are built through the library's own constructor, one interval at a time
            let imp = s.iter().fold(Intervals::empty(), |acc, [a, b]| acc.union_interval(a.clone(), b.clone()));
            assert_eq!(imp.len(), s.len(), "seed must be below capacity");
            v.push(IvState { imp });
        }
        v
    }

    fn actions(&self, _state: &Self::State, actions: &mut Vec<Self::Action>) {
        let n = self.grid.len();
        for i in 0..n {
            for j in i..n {
                actions.push(IvAction::UnionInterval(i, j));
                actions.push(IvAction::IntersectionInterval(i, j));
            }
        }
        for k in 0..self.family.len() {
            actions.push(IvAction::Union(k));
            actions.push(IvAction::Intersection(k));
        }
        actions.push(IvAction::Simplify);
        actions.push(IvAction::IntoInterval);
    }

    fn next_state(&self, last: &Self::State, action: Self::Action) -> Option<Self::State> {
        self.transitions.fetch_add(1, Ordering::Relaxed);
        let imp0 = last.imp.clone();
        // the set the library currently declares, as a plain list
        let cur: RefIv<B> = RefIv(last.imp[..].to_vec());
        let (res, rf): (Result<Intervals<B>, Panic>, RefIv<B>) = match &action {
            IvAction::UnionInterval(i, j) => {
                let (a, b) = (self.grid[*i].clone(), self.grid[*j].clone());
                (guarded(|| imp0.union_interval(a.clone(), b.clone())), cur.union(&RefIv(vec![[a, b]])))
            }
            IvAction::IntersectionInterval(i, j) => {
                let (a, b) = (self.grid[*i].clone(), self.grid[*j].clone());
                (guarded(|| imp0.intersection_interval(a.clone(), b.clone())), cur.intersection(&RefIv(vec![[a, b]])))
            }
            IvAction::Union(k) => {
                let o: Intervals<B> = Intervals::from_intervals(&self.family[*k]);
                (guarded(|| imp0.union(o)), cur.union(&RefIv::normalise(self.family[*k].clone())))
            }
            IvAction::Intersection(k) => {
                let o: Intervals<B> = Intervals::from_intervals(&self.family[*k]);
                (guarded(|| imp0.intersection(o)), cur.intersection(&RefIv::normalise(self.family[*k].clone())))
            }
            // simplification must keep every point
            IvAction::Simplify => (guarded(|| imp0.to_simple_superset()), cur.clone()),
            IvAction::IntoInterval => (guarded(|| imp0.into_interval()), cur.clone()),
        };
        let imp = match res {
            Ok(i) => i,
            Err(p) => {
                self.record(&format!("panic@{}", p.site()), last, &action, None, Some(&rf), p.message);
                return None;
            }
        };
        let pairs: &[[B; 2]] = &imp[..];
        self.max_len.fetch_max(pairs.len() as u64, Ordering::Relaxed);
        // invariants
        let ordered = pairs.iter().all(|[a, b]| a <= b);
        let disjoint_sorted = pairs.windows(2).all(|w| w[0][1] < w[1][0]);
        if !ordered || !disjoint_sorted {
            self.record("not-sorted-disjoint", last, &action, Some(&imp), Some(&rf), String::new());
        }
        if pairs.len() > CAPACITY {
            self.record("over-capacity", last, &action, Some(&imp), Some(&rf), format!("len={}", pairs.len()));
        }
        if !rf.inside(pairs) {
            self.record("lost-a-point", last, &action, Some(&imp), Some(&rf), "a point of the exact result (computed on the set the library held before the operation) is outside the library's result".into());
        }
        if rf.0.len() >= CAPACITY && pairs.len() < rf.0.len() {
            // the exact result does not fit: the library had to simplify
            self.crossed_up.fetch_add(1, Ordering::Relaxed);
            let mut slot = self.sample.lock().unwrap();
            if slot.is_none() {
                *slot = Some(json!({"bound_type": self.name, "held_before": format!("{} intervals, first {}", last.imp.len(), show(&last.imp[..last.imp.len().min(3)])), "action": format!("{:?}", action),
                    "exact_result_intervals": rf.0.len(), "library_result": format!("{} intervals: {}", pairs.len(), show(&pairs[..pairs.len().min(3)])), "every_point_of_the_exact_result_kept": rf.inside(pairs)}));
            }
        }
        if last.imp.len() >= CAPACITY - 2 && pairs.len() < last.imp.len() {
            self.shrunk_after_collapse.fetch_add(1, Ordering::Relaxed);
        }
        Some(IvState { imp })
    }

    fn properties(&self) -> Vec<Property<Self>> {
        vec![Property::always("explore-all", |_, _| true)]
    }
}

fn run_iv_model<B: Bound + Send + Sync + 'static>(m: IvModel<B>, depth: Option<usize>, r: &mut Report, ctx: &Ctx) {
    let name = m.name;
    if !ctx.wants(&format!("intervals<{name}>")) {
        return;
    }
    let mut b = m.checker().threads(16);
    if let Some(d) = depth {
        b = b.target_max_depth(d);
    }
    let checker = b.spawn_bfs().join();
    let states = checker.unique_state_count() as u64;
    let m = checker.model();
    let transitions = m.transitions.load(Ordering::Relaxed);
    r.add_count("states", states);
    r.add_count("transitions", transitions);
    r.add_count("traces_validated_against_impl", transitions);
    r.evaluations += transitions;
    r.distinct_nontrivial += states;
    r.set(
        &format!("intervals<{name}>"),
        json!({"states": states, "transitions": transitions, "max_depth": checker.max_depth(), "depth_bound": depth,
               "capacity_crossed_upward": m.crossed_up.load(Ordering::Relaxed),
               "shrunk_from_near_capacity": m.shrunk_after_collapse.load(Ordering::Relaxed),
               "max_len_seen": m.max_len.load(Ordering::Relaxed), "seeds": m.seeds.len(), "grid": m.grid.len(), "family": m.family.len()}),
    );
    if depth.is_some() {
        r.exhaustive = false;
    }
    for (sig, detail) in m.violations.lock().unwrap().iter() {
        r.violation(sig.clone(), format!("intervals<{name}>"), detail.clone());
    }
    let smp = m.sample.lock().unwrap().clone();
    if let Some(smp) = smp {
        if !r.samples.iter().any(|x| x.get("bound_type").is_some()) {
            r.sample(smp);
        }
    }
    if B::name() != "bool" && m.crossed_up.load(Ordering::Relaxed) == 0 {
        r.machinery_errors.push(format!("intervals<{name}>: capacity never crossed (vacuous)"));
    }
}

fn iv_model<B: Bound>(name: &'static str, grid: Vec<B>, zone: Vec<B>, extra: Vec<B>) -> IvModel<B> {
    // `zone`: >= 127 increasing points strictly between grid[5] and grid[6]; `extra`: 3 more points of the zone
    let seed = |n: usize| -> Vec<[B; 2]> { zone.iter().take(n).map(|p| [p.clone(), p.clone()]).collect() };
    let g = |i: usize, j: usize| [grid[i].clone(), grid[j].clone()];
    let mut family: Vec<Vec<[B; 2]>> = vec![
        vec![g(0, 0)],
        vec![g(1, 2)],
        vec![g(0, 1), g(3, 4)],
        vec![g(0, 0), g(2, 2), g(4, 4)],
        vec![g(2, 5)],
        vec![g(0, 6)],
        vec![g(5, 6)],
    ];
    if !zone.is_empty() {
        // two extra disjoint intervals inside the seed zone (126 + 2 = capacity)
        family.push(vec![[extra[0].clone(), extra[0].clone()], [extra[1].clone(), extra[1].clone()]]);
        family.push(vec![[extra[2].clone(), extra[2].clone()]]);
        // keeps the first half of the seeds
        family.push(vec![[zone[0].clone(), zone[60].clone()]]);
        // keeps one seed in two
        family.push(zone.iter().step_by(2).take(50).map(|p| [p.clone(), p.clone()]).collect());
        family.push(vec![[zone[10].clone(), zone[20].clone()], [zone[100].clone(), zone[126].clone()]]);
    }
    let seeds = if zone.is_empty() { vec![] } else { vec![seed(126), seed(127), seed(125)] };
    IvModel {
        name,
        grid,
        family,
        seeds,
        transitions: AtomicU64::new(0),
        crossed_up: AtomicU64::new(0),
        shrunk_after_collapse: AtomicU64::new(0),
        max_len: AtomicU64::new(0),
        violations: Mutex::new(vec![]),
        sample: Mutex::new(None),
    }
}

fn part_a(ctx: &Ctx, r: &mut Report) {
    let depth = match ctx.tier {
        Tier::Quick => Some(5),
        Tier::Thorough => None,
    };
    // i64: grid with room between 5 and 1000 for the seed zone
    let zone: Vec<i64> = (0..130).map(|k| 10 + 3 * k).collect();
    let m = iv_model::<i64>("i64", vec![-3, -1, 0, 1, 2, 5, 1000], zone.clone(), vec![11, 14, 500]);
    run_iv_model(m, depth, r, ctx);
    let zone: Vec<f64> = (0..130).map(|k| 10.0 + 3.0 * k as f64).collect();
    let m = iv_model::<f64>("f64", vec![-2.5, -1.0, -0.5, 0.0, 0.5, 5.0, 1000.0], zone, vec![11.5, 14.25, 500.0]);
    run_iv_model(m, depth, r, ctx);
    let zone: Vec<String> = (0..130).map(|k| format!("m{:03}", k)).collect();
    let m = iv_model::<String>(
        "String",
        ["A", "B", "a", "b", "c", "l", "z"].iter().map(|s| s.to_string()).collect(),
        zone,
        vec!["m000x".into(), "m001x".into(), "y".into()],
    );
    run_iv_model(m, depth, r, ctx);
    // bool: two points, capacity unreachable
    let m = IvModel::<bool> {
        name: "bool",
        grid: vec![false, true],
        family: vec![vec![[false, false]], vec![[true, true]], vec![[false, true]]],
        seeds: vec![],
        transitions: AtomicU64::new(0),
        crossed_up: AtomicU64::new(0),
        shrunk_after_collapse: AtomicU64::new(0),
        max_len: AtomicU64::new(0),
        violations: Mutex::new(vec![]),
        sample: Mutex::new(None),
    };
    run_iv_model(m, None, r, ctx);
}

// ---------------------------------------------------------------------------------------
// (b) type pairs

fn d(y: i32, m: u32, dd: u32) -> chrono::NaiveDate {
    chrono::NaiveDate::from_ymd_opt(y, m, dd).unwrap()
}

pub fn primitive_types() -> Vec<DataType> {
    use qrlew::data_type::intervals::Intervals as I;
    let s = |x: &str| x.to_string();
    vec![
        DataType::Null,
        DataType::unit(),
        DataType::boolean(),
        DataType::boolean_value(true),
        DataType::boolean_value(false),
        DataType::integer(),
        DataType::integer_interval(0, 1),
        DataType::integer_values([0, 1]),
        DataType::integer_values([-3, 2, 5]),
        DataType::integer_interval(-3, 5),
        DataType::integer_min(2),
        DataType::integer_interval((1 << 53) - 1, (1 << 53) + 1),
        DataType::Integer(I::from_intervals([[-3, -1], [2, 5]])),
        DataType::enumeration(&["a", "b"]),
        DataType::enumeration(&["b", "c", "a"]),
        DataType::float(),
        DataType::float_interval(0.0, 1.0),
        DataType::float_values([0.0, 1.0]),
        DataType::float_values([-3.0, 0.5, 2.0]),
        DataType::float_interval(-2.5, 2.5),
        DataType::float_max(0.5),
        DataType::Float(I::from_intervals([[-2.5, -0.5], [1.0, 5.0]])),
        DataType::text(),
        DataType::text_values([s("a"), s("b")]),
        DataType::text_values([s("1"), s("true"), s("0.5")]),
        DataType::text_interval(s("A"), s("a")),
        DataType::text_values([s("2000-02-29"), s("a")]),
        DataType::bytes(),
        DataType::date(),
        DataType::date_interval(d(2000, 1, 1), d(2020, 12, 31)),
        DataType::date_value(d(2000, 2, 29)),
        DataType::time(),
        DataType::time_value(chrono::NaiveTime::from_hms_opt(12, 30, 0).unwrap()),
        DataType::date_time(),
        DataType::date_time_interval(d(2000, 1, 1).and_hms_opt(0, 0, 0).unwrap(), d(2020, 12, 31).and_hms_opt(23, 0, 0).unwrap()),
        DataType::date_time_value(d(2000, 2, 29).and_hms_opt(0, 0, 0).unwrap()),
        DataType::duration(),
        DataType::duration_interval(chrono::Duration::seconds(0), chrono::Duration::seconds(60)),
        DataType::id(),
        DataType::Any,
    ]
}

pub fn composite_types(prims: &[DataType], tier: Tier) -> Vec<DataType> {
    // a subset of primitives used inside composites
    let idx: Vec<usize> = match tier {
        Tier::Quick => vec![0, 1, 2, 6, 9, 16, 19, 23, 29, 39],
        Tier::Thorough => (0..prims.len()).collect(),
    };
    let inner: Vec<DataType> = idx.iter().map(|i| prims[*i].clone()).collect();
    let mut out = vec![];
    for p in &inner {
        out.push(DataType::optional(p.clone()));
        out.push(DataType::structured([("a", p.clone())]));
        out.push(DataType::union([("a", p.clone())]));
        out.push(DataType::list(p.clone(), 0, 2));
        out.push(DataType::list(p.clone(), 1, 1));
        out.push(DataType::set(p.clone(), 0, 2));
        // size sets with a positive minimum (seed C11-5: inclusion decided on the maximum size alone)
        out.push(DataType::set(p.clone(), 1, 3));
        out.push(DataType::set(p.clone(), 2, 3));
        out.push(DataType::list(p.clone(), 2, 3));
        out.push(DataType::array(p.clone(), [2]));
    }
    let few: Vec<DataType> = inner.iter().take(tier.pick(5, 8)).cloned().collect();
    for p in &few {
        for q in &few {
            out.push(DataType::structured([("a", p.clone()), ("b", q.clone())]));
            out.push(DataType::union([("a", p.clone()), ("b", q.clone())]));
            out.push(DataType::function(p.clone(), q.clone()));
        }
    }
    out.push(DataType::structured([("b", prims[6].clone()), ("a", prims[16].clone())]));
    out.push(DataType::optional(DataType::optional(prims[6].clone())));
    out.push(DataType::structured(Vec::<(&str, DataType)>::new()));
    out.push(DataType::union(Vec::<(&str, DataType)>::new()));
    out
}

pub fn value_universe() -> Vec<Value> {
    let s = |x: &str| Value::text(x);
    let mut prim = vec![
        Value::unit(),
        Value::boolean(false),
        Value::boolean(true),
        Value::integer(-3),
        Value::integer(0),
        Value::integer(1),
        Value::integer(2),
        Value::integer(4),
        Value::integer(1 << 53),
        Value::integer((1 << 53) + 1),
        Value::float(-3.0),
        Value::float(-1.0),
        Value::float(0.0),
        Value::float(0.5),
        Value::float(1.0),
        Value::float(2.0),
        Value::float(7.25),
        s("a"),
        s("b"),
        s("1"),
        s("true"),
        s("0.5"),
        s("Z"),
        s("2000-02-29"),
        Value::bytes(vec![1u8, 2]),
        Value::date(d(2000, 2, 29)),
        Value::date(d(1999, 1, 1)),
        Value::time(chrono::NaiveTime::from_hms_opt(12, 30, 0).unwrap()),
        Value::date_time(d(2000, 2, 29).and_hms_opt(0, 0, 0).unwrap()),
        Value::date_time(d(2010, 6, 1).and_hms_opt(10, 0, 0).unwrap()),
        Value::duration(chrono::Duration::seconds(30)),
        Value::duration(chrono::Duration::seconds(3600)),
        Value::id("x"),
        Value::enumeration(0, vec![("a".to_string(), 0), ("b".to_string(), 1)]),
        Value::enumeration(1, vec![("a".to_string(), 0), ("b".to_string(), 1)]),
        // explicit codes that are not listed in increasing order (decreasing, shuffled, negative)
        Value::enumeration(30, vec![("critical".to_string(), 30), ("high".to_string(), 20), ("low".to_string(), 0)]),
        Value::enumeration(20, vec![("critical".to_string(), 30), ("high".to_string(), 20), ("low".to_string(), 0)]),
        Value::enumeration(0, vec![("critical".to_string(), 30), ("high".to_string(), 20), ("low".to_string(), 0)]),
        Value::enumeration(1, vec![("x".to_string(), 5), ("y".to_string(), 1), ("z".to_string(), 3), ("t".to_string(), -2)]),
        Value::enumeration(-2, vec![("x".to_string(), 5), ("y".to_string(), 1), ("z".to_string(), 3), ("t".to_string(), -2)]),
    ];
    let base: Vec<Value> = vec![prim[1].clone(), prim[4].clone(), prim[5].clone(), prim[13].clone(), prim[17].clone(), prim[25].clone()];
    let mut comp = vec![Value::none()];
    for b in &base {
        comp.push(Value::some(b.clone()));
        comp.push(Value::structured([("a", b.clone())]));
        comp.push(Value::union("a".to_string(), b.clone()));
        comp.push(Value::union("b".to_string(), b.clone()));
        comp.push(Value::list(vec![b.clone()]));
        comp.push(Value::list(vec![b.clone(), b.clone()]));
        comp.push(Value::set(vec![b.clone()]));
        comp.push(Value::array(vec![b.clone(), b.clone()], [2]));
        for c in base.iter().take(3) {
            comp.push(Value::structured([("a", b.clone()), ("b", c.clone())]));
        }
    }
    comp.push(Value::list(vec![]));
    comp.push(Value::set(vec![base[1].clone(), base[2].clone()]));
    comp.push(Value::list(vec![base[1].clone(), base[2].clone(), base[2].clone()]));
    comp.push(Value::set(vec![base[0].clone(), prim[2].clone()]));
    comp.push(Value::some(Value::some(Value::integer(1))));
    comp.push(Value::structured(Vec::<(&str, Value)>::new()));
    prim.extend(comp);
    prim
}

fn variant_name(t: &DataType) -> String {
    crate::c06::kind_of(t)
}

fn vkind(v: &Value) -> &'static str {
    match v {
        Value::Unit(_) => "unit",
        Value::Boolean(_) => "bool",
        Value::Integer(_) => "int",
        Value::Enum(_) => "enum",
        Value::Float(_) => "float",
        Value::Text(_) => "text",
        Value::Bytes(_) => "bytes",
        Value::Struct(_) => "struct",
        Value::Union(_) => "union",
        Value::Optional(_) => "optional",
        Value::List(_) => "list",
        Value::Set(_) => "set",
        Value::Array(_) => "array",
        Value::Date(_) => "date",
        Value::Time(_) => "time",
        Value::DateTime(_) => "datetime",
        Value::Duration(_) => "duration",
        Value::Id(_) => "id",
        Value::Function(_) => "function",
    }
}

/// the value converted by the library into (the variant of) the type, when that is possible
fn converted(t: &DataType, v: &Value) -> Option<Value> {
    match guarded(|| {
        use qrlew::data_type::value::Variant as _;
        v.as_data_type(t)
    }) {
        Ok(Ok(w)) => Some(w),
        _ => None,
    }
}

/// conclusion-side membership, "modulo the injection the library itself uses": reference
/// membership (with the canonical numeric / text embeddings), or the value converted by the
/// library into the variant of the type is a reference member
fn member_mod(t: &DataType, v: &Value) -> bool {
    ref_member(t, v) || converted(t, v).map_or(false, |w| ref_member(t, &w))
}

/// premise-side membership of a value in the *other* operand: strict, or strict after the
/// library's own conversion
fn in_other(t: &DataType, v: &Value) -> bool {
    strict_member(t, v) || converted(t, v).map_or(false, |w| strict_member(t, &w))
}

fn lib_contains(t: &DataType, v: &Value) -> String {
    match guarded(|| t.contains(v)) {
        Ok(b) => b.to_string(),
        Err(p) => format!("panic@{}", p.site()),
    }
}

fn part_b(ctx: &Ctx) -> Report {
    let prims = primitive_types();
    let mut types = prims.clone();
    types.extend(composite_types(&prims, ctx.tier));
    let values = value_universe();
    let n = types.len();
    let mut head = Report::new("model_checking");
    head.set("types", n as u64);
    head.set("values", values.len() as u64);
    // law 4: v ∈ v.data_type()
    for v in &values {
        head.evaluations += 1;
        match guarded(|| v.data_type()) {
            Ok(t) => {
                if !strict_member(&t, v) {
                    head.violation(format!("law=own-type value={}", vkind(v)), "types/own-type", json!({"value": v.to_string(), "type": t.to_string(), "library_contains": lib_contains(&t, v)}));
                }
                // ... and by the library's own membership test (the one its callers use)
                let lc = lib_contains(&t, v);
                if lc != "true" {
                    head.violation(format!("law=own-type(library-contains) value={} answer={}", vkind(v), lc.chars().take(40).collect::<String>()), "types/own-type", json!({"value": v.to_string(), "type": t.to_string(), "library_contains": lc}));
                }
            }
            Err(p) => head.violation(format!("law=own-type panic@{}", p.site()), "types/own-type", json!({"value": v.to_string()})),
        }
    }
    // strict membership matrix (premises)
    let members: Vec<Vec<bool>> = types.iter().map(|t| values.iter().map(|v| strict_member(t, v)).collect()).collect();
    let inhabited = members.iter().filter(|m| m.iter().any(|x| *x)).count();
    head.set("types_with_a_member_in_the_universe", inhabited as u64);
    let items: Vec<usize> = (0..n).filter(|i| ctx.wants(&format!("types/A={}", i))).collect();
    let types = &types;
    let values = &values;
    let members = &members;
    let body = par_reports_isolated(items, "model_checking", move |i, r| {
        let a = &types[i];
        let case_id = format!("types/A={}", i);
        for (j, b) in types.iter().enumerate() {
            r.add_count("type_pairs", 1);
            let va = variant_name(a);
            let vb = variant_name(b);
            // subset law: A ⊆ B claimed, v ∈ A  =>  v ∈ B (modulo the library's conversion)
            let sub = guarded(|| a.is_subset_of(b));
            match &sub {
                Ok(true) => {
                    r.reach("subset_true_by_variant_pair", &format!("{va}⊆{vb}"));
                    for (k, v) in values.iter().enumerate() {
                        if members[i][k] {
                            r.evaluations += 1;
                            r.distinct_nontrivial += 1;
                            if !members[j][k] && !member_mod(b, v) {
                                r.violation(
                                    format!("law=subset A={va} B={vb}"),
                                    &case_id,
                                    json!({"A": a.to_string(), "B": b.to_string(), "value": v.to_string(), "value_kind": vkind(v), "library_contains_B_v": lib_contains(b, v),
                                           "note": "A.is_subset_of(B) and v in A, but v (even converted by the library) is not in B"}),
                                );
                            }
                        }
                    }
                }
                Ok(false) => {}
                Err(p) => r.violation(format!("law=subset panic@{}", p.site()), &case_id, json!({"A": a.to_string(), "B": b.to_string(), "panic": p.message})),
            }
            // union law
            match guarded(|| a.super_union(b)) {
                Ok(Ok(u)) => {
                    for (k, v) in values.iter().enumerate() {
                        if members[i][k] || members[j][k] {
                            r.evaluations += 1;
                            r.distinct_nontrivial += 1;
                            if !member_mod(&u, v) {
                                r.violation(
                                    format!("law=union A={va} B={vb}"),
                                    &case_id,
                                    json!({"A": a.to_string(), "B": b.to_string(), "union": u.to_string(), "value": v.to_string(), "value_kind": vkind(v), "library_contains_union_v": lib_contains(&u, v)}),
                                );
                            }
                        }
                    }
                }
                Ok(Err(e)) => {
                    if (0..values.len()).any(|k| members[i][k] || members[j][k]) {
                        r.violation(format!("law=union err A={va} B={vb}"), &case_id, json!({"A": a.to_string(), "B": b.to_string(), "error": e.to_string()}));
                    }
                }
                Err(p) => r.violation(format!("law=union panic@{}", p.site()), &case_id, json!({"A": a.to_string(), "B": b.to_string(), "panic": p.message})),
            }
            // intersection law
            match guarded(|| a.super_intersection(b)) {
                Ok(Ok(u)) => {
                    for (k, v) in values.iter().enumerate() {
                        if members[i][k] && (members[j][k] || (va != vb && in_other(b, v))) {
                            r.evaluations += 1;
                            r.distinct_nontrivial += 1;
                            r.reach("intersection_nonempty_by_variant_pair", &format!("{va}∩{vb}"));
                            if !member_mod(&u, v) {
                                r.violation(
                                    format!("law=intersection A={va} B={vb}"),
                                    &case_id,
                                    json!({"A": a.to_string(), "B": b.to_string(), "intersection": u.to_string(), "value": v.to_string(), "value_kind": vkind(v), "library_contains_intersection_v": lib_contains(&u, v)}),
                                );
                            }
                        }
                    }
                }
                Ok(Err(e)) => {
                    if (0..values.len()).any(|k| members[i][k] && members[j][k]) {
                        r.violation(format!("law=intersection err A={va} B={vb}"), &case_id, json!({"A": a.to_string(), "B": b.to_string(), "error": e.to_string()}));
                    }
                }
                Err(p) => r.violation(format!("law=intersection panic@{}", p.site()), &case_id, json!({"A": a.to_string(), "B": b.to_string(), "panic": p.message})),
            }
            // side report: the library's own `contains` against the reference, same variant only
            if i == j {
                for (k, v) in values.iter().enumerate() {
                    if let Ok(c) = guarded(|| a.contains(v)) {
                        if c != members[i][k] && vkind(v) == variant_name(a) {
                            r.add_count("side_report_contains_disagrees_with_reference", 1);
                        }
                    }
                }
            }
        }
        if r.samples.is_empty() && i == 9 {
            r.sample(json!({"A": a.to_string(), "B": types[16].to_string(), "A⊆B": format!("{:?}", guarded(|| a.is_subset_of(&types[16])).ok()),
                "A∪B": guarded(|| a.super_union(&types[16])).ok().map(|x| x.map(|t| t.to_string()).unwrap_or_default()),
                "A∩B": guarded(|| a.super_intersection(&types[16])).ok().map(|x| x.map(|t| t.to_string()).unwrap_or_default())}));
        }
    });
    head.merge(body);
    head
}

pub fn run(ctx: &Ctx) -> Report {
    let mut r = Report::new("model_checking");
    part_a(ctx, &mut r);
    let b = part_b(ctx);
    r.merge(b);
    r.rule = "(a) explicit-state BFS: state = the real Intervals<B>; every transition is executed on the implementation and compared with the exact operation (independent interval-list reference) applied to the set held before, actions = union_interval/intersection_interval over a 7-point grid, union/intersection with a 12-set family, to_simple_superset, into_interval; initial states empty, full and 125/126/127-interval seeds; invariants on every transition: sorted, disjoint, len<=capacity, result contains the exact result (never loses a point). (b) all ordered pairs of an enumerated type universe (21 variants, depth<=2) x a value universe: subset, union, intersection, own-type laws with reference membership. non-trivial = distinct states (a) + (pair,value) instances whose premise holds (b)".into();
    r.assumptions = vec![
        "values and bounds outside the grids are not explored".into(),
        "membership across variants is taken modulo the library's own value conversion (as_data_type)".into(),
    ];
    r
}
