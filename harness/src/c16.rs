//! C16 — compilation is deterministic and rendering is a fixpoint.
//! (a) explicit-state search over the global name-counter: states = counter snapshots reached by
//!     histories of counter-touching operations (H1 snapshot/restore); in EVERY reachable state EVERY
//!     operation of the alphabet (compile+render of each E-sql query, PUP / DP rewritings) must give
//!     the output it gives from the initial state; rendering twice is identical;
//! (b) controlled schedules: two threads, each a short sequence of naming operations, all
//!     interleavings at the scheduling points of H1: the ids handed out for a prefix are pairwise
//!     distinct and dense, and every compile gives its solo output;
//! (c) fixpoint: re-parsing the rendered SQL gives the same schema and the same SQLite results.
use crate::common::*;
use crate::sqlgen::queries;
use crate::sqlite::same_multiset;
use crate::world::World;
use qrlew::builder::With;
use qrlew::data_type::DataTyped;
use qrlew::differential_privacy::DpParameters;
use qrlew::hierarchy::Hierarchy;
use qrlew::namer;
use qrlew::privacy_unit_tracking::Strategy;
use qrlew::relation::{Relation, Variant as _};
use qrlew::{ast, sql::parse};
use serde_json::json;
use std::collections::{BTreeMap, BTreeSet, VecDeque};
use std::sync::{Arc, Condvar, Mutex};

type Snapshot = Option<Vec<(String, usize)>>;

#[derive(Clone)]
enum Op {
    Compile(String),
    Pup(String),
    Dp(String),
}

impl Op {
    fn id(&self) -> String {
        match self {
            Op::Compile(s) => format!("compile :: {s}"),
            Op::Pup(s) => format!("pup-rewrite :: {s}"),
            Op::Dp(s) => format!("dp-rewrite :: {s}"),
        }
    }
    /// the observable output of the operation (or how it failed)
    fn run(&self, relations: &Hierarchy<Arc<Relation>>) -> String {
        let r = guarded(|| -> Result<String, String> {
            let (sql, kind) = match self {
                Op::Compile(s) => (s, 0),
                Op::Pup(s) => (s, 1),
                Op::Dp(s) => (s, 2),
            };
            let rel = Relation::try_from(parse(sql).map_err(|e| e.to_string())?.with(relations)).map_err(|e| e.to_string())?;
            let out = match kind {
                0 => rel,
                1 => rel
                    .rewrite_as_privacy_unit_preserving(relations, None, crate::c18::privacy_unit(), DpParameters::from_epsilon_delta(1.0, 1e-3), Some(Strategy::Hard))
                    .map_err(|e| e.to_string())?
                    .relation()
                    .clone(),
                _ => rel.rewrite_with_differential_privacy(relations, None, crate::c18::privacy_unit(), DpParameters::from_epsilon_delta(1.0, 1e-3)).map_err(|e| e.to_string())?.relation().clone(),
            };
            let text1 = ast::Query::from(&out).to_string();
            let text2 = ast::Query::from(&out).to_string();
            if text1 != text2 {
                return Ok(format!("RENDER-TWICE-DIFFERS\n{text1}\n{text2}"));
            }
            Ok(format!("{}\n{}", out.schema(), text1))
        });
        match r {
            Ok(Ok(s)) => s,
            Ok(Err(e)) => format!("ERR {}", e.chars().take(120).collect::<String>()),
            Err(p) => format!("PANIC {}", p.site()),
        }
    }
}

fn polluters() -> Vec<Op> {
    vec![
        Op::Compile("SELECT random() AS r, id FROM users".into()),
        Op::Compile("SELECT a FROM (VALUES (1), (2)) AS t(a)".into()),
        Op::Pup("SELECT k FROM m".into()),
        Op::Dp("SELECT count(*) AS c FROM users".into()),
        Op::Dp("SELECT city, sum(age) AS s FROM users GROUP BY city".into()),
        Op::Dp("SELECT user_id, sum(amount) AS s FROM orders GROUP BY user_id".into()),
    ]
}

fn alphabet(tier: Tier) -> Vec<Op> {
    let mut ops: Vec<Op> = vec![];
    let step = tier.pick(2, 1);
    for (i, g) in queries(tier).into_iter().enumerate() {
        if i % step == 0 {
            ops.push(Op::Compile(g.sql));
        }
    }
    // composed terms: every unary constructor over the base tables (incl. unaliased / repeated expressions),
    // thorough: also the depth-1 joins
    for rel in crate::sqlgen2::level1_unary(true) {
        ops.push(Op::Compile(rel.sql));
    }
    if tier == Tier::Thorough {
        for rel in crate::sqlgen2::level1_binary() {
            ops.push(Op::Compile(rel.sql));
        }
    }
    for s in [
        "SELECT random() AS r, id FROM users",
        "SELECT id, id FROM users",
        "SELECT age + 1, age + 1 FROM users",
        "SELECT city, count(*) FROM users GROUP BY city HAVING count(*) > 1",
        "SELECT count(*), count(*) FROM users",
        "SELECT a FROM (VALUES (1), (2)) AS t(a)",
        "SELECT 1 AS one, 2 AS two FROM users",
        "SELECT id FROM users WHERE random() < 0.5",
        // the same function with different numbers / kinds of arguments (per-thread function tables)
        "SELECT concat(city, 'x') AS c FROM users",
        "SELECT concat(city, 'x', city) AS c FROM users",
        "SELECT concat(city, 'y', 'z', city) AS c FROM users",
        "SELECT coalesce(amount, 0) AS c FROM orders",
        "SELECT coalesce(amount, user_id, 0) AS c FROM orders",
        "SELECT round(amount) AS r FROM orders",
        "SELECT round(amount, 1) AS r FROM orders",
        "SELECT CAST(id AS TEXT) AS t, CAST(age AS FLOAT) AS f FROM users",
        "SELECT CAST(city AS TEXT) AS t, CAST(id AS FLOAT) AS f FROM users",
        "SELECT greatest(age, 19) AS g FROM users",
        "SELECT greatest(id, age) AS g FROM users",
    ] {
        ops.push(Op::Compile(s.into()));
    }
    for q in crate::dpchecks::dp_queries(tier).into_iter().step_by(tier.pick(3, 1)) {
        ops.push(Op::Pup(q.sql.clone()));
        ops.push(Op::Dp(q.sql));
    }
    ops.push(Op::Pup("SELECT k FROM m".into()));
    ops.push(Op::Pup("SELECT u.age, o.amount FROM users u JOIN orders o ON u.id = o.user_id".into()));
    ops
}

/// the statement is about parsing SQL into relations and rendering them; rewritings are explored
/// too (they share the counter) but their own nondeterminism is reported as an observation only
fn flag(r: &mut Report, kind: &str, op: &Op, detail: serde_json::Value) {
    match op {
        Op::Compile(sql) => {
            let sig = if sql.to_lowercase().contains("random()") { format!("{kind} compile cause=random()-carries-a-counter-id") } else { format!("{kind} {}", op.id()) };
            r.violation(sig, op.id(), detail)
        }
        _ => r.reach(&format!("observed_beyond_the_statement({kind})"), &op.id()),
    }
}

fn diff_summary(a: &str, b: &str) -> serde_json::Value {
    let pos = a.chars().zip(b.chars()).position(|(x, y)| x != y).unwrap_or(a.len().min(b.len()));
    let ctx = |s: &str| s.chars().skip(pos.saturating_sub(60)).take(160).collect::<String>();
    json!({"first_difference_at": pos, "from_initial_state": ctx(a), "from_this_state": ctx(b), "lengths": [a.len(), b.len()]})
}

fn part_a(ctx: &Ctx, r: &mut Report) {
    if ctx.replay.is_some() && !ctx.replay.as_ref().map_or(false, |x| x.contains("::")) {
        return;
    }
    let world = World::standard();
    let relations = world.relations();
    let ops: Vec<Op> = alphabet(ctx.tier).into_iter().filter(|o| ctx.wants(&o.id())).collect();
    let pol = polluters();
    // baseline outputs from the initial state
    let mut baseline: Vec<String> = vec![];
    for op in &ops {
        namer::reset();
        baseline.push(op.run(&relations));
    }
    // run-to-run determinism from the SAME state (nothing but the process differs): repeated 3 times
    for (i, op) in ops.iter().enumerate() {
        // (a compilation that iterates over a randomly seeded hash container differs from run to run with some
        // probability only: joins over several shared columns are repeated more often)
        let repeats = if matches!(op, Op::Compile(sql) if sql.contains("NATURAL") || sql.contains("USING")) { 8 } else { 2 };
        for _ in 0..repeats {
            namer::reset();
            let again = op.run(&relations);
            r.evaluations += 1;
            if again != baseline[i] {
                flag(r, "not-repeatable-from-the-initial-state", op, diff_summary(&baseline[i], &again));
                break;
            }
        }
    }
    // every operation on a FRESH thread (clean thread-local function tables) gives the output it gave on the long-lived
    // thread after all the operations before it: nothing cached per thread leaks into a later compilation
    for (i, op) in ops.iter().enumerate() {
        namer::reset();
        let fresh = std::thread::scope(|sc| std::thread::Builder::new().stack_size(64 << 20).spawn_scoped(sc, || op.run(&relations)).expect("spawn").join().unwrap_or_else(|_| "THREAD-PANIC".to_string()));
        r.evaluations += 1;
        if fresh != baseline[i] {
            let mut d = diff_summary(&fresh, &baseline[i]);
            d["note"] = json!("output on a fresh thread vs output on a thread that compiled the earlier operations of the alphabet");
            flag(r, "depends-on-earlier-compilations-of-the-thread", op, d);
        }
    }
    r.add_count("fresh_thread_runs", ops.len() as u64);
    // histories made of the operation itself: op ; op and op ; op ; op without a reset in between (a name taken
    // from a counter keyed by the node's own content only moves when the SAME text is compiled again)
    for (i, op) in ops.iter().enumerate() {
        namer::reset();
        let _ = op.run(&relations);
        for k in 1..=2 {
            let again = op.run(&relations);
            r.evaluations += 1;
            if again != baseline[i] {
                let mut d = diff_summary(&baseline[i], &again);
                d["history"] = json!(vec![op.id(); k]);
                flag(r, "depends-on-earlier-compilations", op, d);
                break;
            }
        }
    }
    r.add_count("self_histories", 2 * ops.len() as u64);
    // BFS over counter states
    let depth = ctx.tier.pick(2, 3);
    let mut seen: BTreeSet<Snapshot> = BTreeSet::new();
    let mut frontier: VecDeque<(Snapshot, Vec<usize>)> = VecDeque::new();
    seen.insert(None);
    frontier.push_back((None, vec![]));
    let mut transitions = 0u64;
    let mut states: Vec<(Snapshot, Vec<usize>)> = vec![(None, vec![])];
    while let Some((s, path)) = frontier.pop_front() {
        if path.len() >= depth {
            continue;
        }
        for (pi, p) in pol.iter().enumerate() {
            namer::verif_restore(s.clone());
            let _ = p.run(&relations);
            transitions += 1;
            let n = namer::verif_snapshot();
            if seen.insert(n.clone()) {
                let mut p2 = path.clone();
                p2.push(pi);
                states.push((n.clone(), p2.clone()));
                frontier.push_back((n, p2));
            }
        }
    }
    // conformance of restore: replaying a path from the initial state reaches the stored snapshot
    for (snap, path) in states.iter().filter(|(_, p)| !p.is_empty()).step_by(3) {
        namer::reset();
        for pi in path {
            let _ = pol[*pi].run(&relations);
        }
        if &namer::verif_snapshot() != snap {
            r.machinery_errors.push(format!("restore/replay mismatch for history {:?}", path));
        }
        r.add_count("traces_validated_against_impl", 1);
    }
    r.add_count("states", states.len() as u64);
    // the invariant in every reachable state
    let mut flagged: BTreeSet<usize> = BTreeSet::new();
    for (snap, path) in &states {
        for (i, op) in ops.iter().enumerate() {
            if flagged.contains(&i) {
                continue;
            }
            namer::verif_restore(snap.clone());
            let out = op.run(&relations);
            transitions += 1;
            r.evaluations += 1;
            if r.samples.is_empty() && path.len() >= 2 && i == 0 {
                r.sample(json!({"history": path.iter().map(|p| pol[*p].id()).collect::<Vec<_>>(), "counter_state": format!("{:?}", snap).chars().take(300).collect::<String>(), "then": op.id(), "output_equals_output_from_initial_state": out == baseline[i], "output_bytes": out.len()}));
            }
            if out != baseline[i] {
                flagged.insert(i);
                let mut d = diff_summary(&baseline[i], &out);
                d["history"] = json!(path.iter().map(|p| pol[*p].id()).collect::<Vec<_>>());
                d["counter_state"] = json!(format!("{:?}", snap));
                flag(r, "depends-on-earlier-compilations", op, d);
            }
        }
    }
    namer::reset();
    r.add_count("transitions", transitions);
    r.distinct_nontrivial += states.len() as u64;
    r.set("history_search", json!({"operations": ops.len(), "polluting_operations": pol.len(), "depth": depth, "counter_states": states.len()}));
}

// ---------------------------------------------------------------------------------------
// (b) controlled schedules

struct Sched {
    /// the thread allowed to run
    current: usize,
    alive: Vec<bool>,
    /// choices to follow, then "keep running the current thread if alive"
    plan: Vec<usize>,
    pos: usize,
    /// at each decision point: (chosen, enabled)
    trace: Vec<(usize, Vec<usize>)>,
    preemptions: usize,
}

thread_local! {
    static TID: std::cell::Cell<usize> = std::cell::Cell::new(usize::MAX);
}

fn decide(s: &mut Sched, me: usize, finished: bool) {
    if finished {
        s.alive[me] = false;
    }
    let enabled: Vec<usize> = (0..s.alive.len()).filter(|i| s.alive[*i]).collect();
    if enabled.is_empty() {
        return;
    }
    let default = if s.alive[s.current] { s.current } else { enabled[0] };
    let choice = if s.pos < s.plan.len() { s.plan[s.pos] } else { default };
    let choice = if enabled.contains(&choice) { choice } else { default };
    s.pos += 1;
    if s.alive[s.current] && choice != s.current && !finished {
        s.preemptions += 1;
    }
    s.trace.push((choice, enabled));
    s.current = choice;
}

/// run `bodies` (one per thread) under the plan; returns the trace and the per-thread results
fn run_schedule(bodies: &[Arc<dyn Fn() -> Vec<String> + Send + Sync>], plan: Vec<usize>) -> (Vec<(usize, Vec<usize>)>, Vec<Vec<String>>) {
    let n = bodies.len();
    let state = Arc::new((Mutex::new(Sched { current: 0, alive: vec![true; n], plan, pos: 0, trace: vec![], preemptions: 0 }), Condvar::new()));
    let st2 = state.clone();
    qrlew::verif::set_scheduler(Some(Arc::new(move |_label| {
        let me = TID.with(|t| t.get());
        if me == usize::MAX {
            return;
        }
        let (m, cv) = &*st2;
        let mut s = m.lock().unwrap();
        decide(&mut s, me, false);
        cv.notify_all();
        while s.current != me {
            s = cv.wait(s).unwrap();
        }
    })));
    let results: Vec<Vec<String>> = std::thread::scope(|sc| {
        let handles: Vec<_> = bodies
            .iter()
            .enumerate()
            .map(|(i, b)| {
                let state = state.clone();
                let b = b.clone();
                sc.spawn(move || {
                    install_thread_panic_capture();
                    TID.with(|t| t.set(i));
                    {
                        let (m, cv) = &*state;
                        let mut s = m.lock().unwrap();
                        while s.current != i {
                            s = cv.wait(s).unwrap();
                        }
                    }
                    let out = b();
                    let (m, cv) = &*state;
                    let mut s = m.lock().unwrap();
                    decide(&mut s, i, true);
                    cv.notify_all();
                    out
                })
            })
            .collect();
        handles.into_iter().map(|h| h.join().unwrap_or_else(|_| vec!["THREAD-PANIC".into()])).collect()
    });
    qrlew::verif::set_scheduler(None);
    let trace = state.0.lock().unwrap().trace.clone();
    (trace, results)
}

fn part_b(ctx: &Ctx, r: &mut Report) {
    if ctx.replay.is_some() && !ctx.wants("schedules") {
        return;
    }
    let world = World::standard();
    let relations = Arc::new(world.relations());
    // thread programs: short sequences of naming operations and compilations
    let mk_ids = |prefixes: Vec<&'static str>| -> Arc<dyn Fn() -> Vec<String> + Send + Sync> {
        Arc::new(move || prefixes.iter().map(|p| format!("{}={}", p, namer::new_id(*p))).collect())
    };
    let rel2 = relations.clone();
    let mk_compile = move |sql: &'static str| -> Arc<dyn Fn() -> Vec<String> + Send + Sync> {
        let rel = rel2.clone();
        Arc::new(move || vec![Op::Compile(sql.to_string()).run(&rel)])
    };
    let programs: Vec<(&str, Vec<Arc<dyn Fn() -> Vec<String> + Send + Sync>>)> = vec![
        ("ids: [x,x] || [x,x]", vec![mk_ids(vec!["x", "x"]), mk_ids(vec!["x", "x"])]),
        ("ids: [x,y,x] || [y,x]", vec![mk_ids(vec!["x", "y", "x"]), mk_ids(vec!["y", "x"])]),
        ("ids: [x,x] || [x] || [x]", vec![mk_ids(vec!["x", "x"]), mk_ids(vec!["x"]), mk_ids(vec!["x"])]),
        ("compile(plain) || ids [field,map]", vec![mk_compile("SELECT age + 1 AS a, city FROM users WHERE id > 1"), mk_ids(vec!["field", "map", "field"])]),
        ("compile(dup-alias) || compile(dup-alias)", vec![mk_compile("SELECT id, id FROM users"), mk_compile("SELECT id, id FROM users")]),
        ("compile(dup-expr) || compile(having) || ids [id,field]", vec![mk_compile("SELECT age + 1, age + 1 FROM users"), mk_compile("SELECT city, count(*) FROM users GROUP BY city HAVING count(*) > 1"), mk_ids(vec!["id", "field"])]),
        ("compile(dup-expr) || compile(dup-expr)", vec![mk_compile("SELECT age + 1, city, age + 1 FROM users"), mk_compile("SELECT age + 1, city, age + 1 FROM users")]),
        ("compile(values) || compile(values)", vec![mk_compile("SELECT a FROM (VALUES (1), (2)) AS t(a)"), mk_compile("SELECT a FROM (VALUES (1), (2)) AS t(a)")]),
        ("compile(random()) || compile(plain)", vec![mk_compile("SELECT id FROM users WHERE random() < 0.5"), mk_compile("SELECT age + 1 AS a, city FROM users WHERE id > 1")]),
        ("compile(join) || compile(aggregate)", vec![mk_compile("SELECT u.id, o.amount FROM users u JOIN orders o ON u.id = o.user_id"), mk_compile("SELECT city, count(*) AS c FROM users GROUP BY city")]),
    ];
    let bound = ctx.tier.pick(2usize, 4usize);
    for (name, bodies) in programs {
        // solo outputs of the compile threads (from the initial state)
        let mut solo: Vec<Option<Vec<String>>> = vec![];
        for b in &bodies {
            namer::reset();
            let out = b();
            solo.push(if name.contains("compile") && out.len() == 1 && out[0].len() > 40 { Some(out) } else { None });
        }
        // DFS over schedules with iterative preemption bounding
        let mut explored = 0u64;
        let mut outcomes: BTreeSet<String> = BTreeSet::new();
        let mut stack: Vec<Vec<usize>> = vec![vec![]];
        let mut seen_plans: BTreeSet<Vec<usize>> = BTreeSet::new();
        while let Some(plan) = stack.pop() {
            if !seen_plans.insert(plan.clone()) {
                continue;
            }
            namer::reset();
            let (trace, results) = run_schedule(&bodies, plan.clone());
            explored += 1;
            r.evaluations += 1;
            let final_state = namer::verif_snapshot();
            outcomes.insert(format!("{:?}", results));
            // replay determinism of the first schedules
            if explored <= 2 {
                namer::reset();
                let (_, again) = run_schedule(&bodies, trace.iter().map(|t| t.0).collect());
                if again != results {
                    r.machinery_errors.push(format!("schedule replay diverged for {name}"));
                }
            }
            // oracle 1: ids per prefix are pairwise distinct and dense
            let mut per_prefix: BTreeMap<String, Vec<usize>> = BTreeMap::new();
            for t in &results {
                for item in t {
                    if let Some((p, v)) = item.split_once('=') {
                        if let Ok(v) = v.parse::<usize>() {
                            per_prefix.entry(p.to_string()).or_default().push(v);
                        }
                    }
                }
            }
            for (p, mut v) in per_prefix {
                v.sort();
                let dense = v.iter().enumerate().all(|(i, x)| *x == i);
                // (compilations running concurrently may also draw from the prefix: then only distinctness is required)
                let distinct = v.windows(2).all(|w| w[0] != w[1]);
                if !distinct || (!dense && !name.contains("compile")) {
                    r.violation(
                        format!("ids-not-distinct-or-dense program={name}"),
                        "schedules",
                        json!({"program": name, "prefix": p, "ids": v, "schedule": trace.iter().map(|t| t.0).collect::<Vec<_>>(), "final_counter": format!("{:?}", final_state)}),
                    );
                }
            }
            // oracle 2: a compilation gives its solo output whatever the other thread does
            for (i, s) in solo.iter().enumerate() {
                if let Some(s) = s {
                    if &results[i] != s {
                        r.violation(
                            if name.contains("random()") { "depends-on-earlier-compilations compile cause=random()-carries-a-counter-id".to_string() } else { format!("compile-output-depends-on-schedule program={name}") },
                            "schedules",
                            json!({"program": name, "thread": i, "schedule": trace.iter().map(|t| t.0).collect::<Vec<_>>(), "diff": diff_summary(&s[0], &results[i][0])}),
                        );
                    }
                }
            }
            // children: deviate at each decision point after the plan's prefix
            let mut pre = 0usize;
            let mut cur = 0usize;
            for (i, (chosen, enabled)) in trace.iter().enumerate() {
                if i >= plan.len() {
                    for alt in enabled {
                        if alt != chosen {
                            let cost = pre + if enabled.contains(&cur) && *alt != cur { 1 } else { 0 };
                            if cost <= bound {
                                let mut p2: Vec<usize> = trace[..i].iter().map(|t| t.0).collect();
                                p2.push(*alt);
                                stack.push(p2);
                            }
                        }
                    }
                }
                if enabled.contains(&cur) && *chosen != cur {
                    pre += 1;
                }
                cur = *chosen;
            }
        }
        r.add_count("schedules_explored", explored);
        r.reach("schedule_programs", &format!("{name}: {explored} schedules, {} distinct outcomes", outcomes.len()));
        r.distinct_nontrivial += outcomes.len() as u64;
    }
    r.set("preemption_bound", bound as u64);
    namer::reset();
}

// ---------------------------------------------------------------------------------------
// (c) rendering fixpoint

fn part_c(ctx: &Ctx, r: &mut Report) {
    if ctx.replay.is_some() && !ctx.replay.as_ref().map_or(false, |x| x.starts_with("fixpoint")) && !ctx.replay.as_ref().map_or(false, |x| x.starts_with('~')) {
        return;
    }
    let world = World::standard();
    let relations = world.relations();
    let e = crate::dpchecks::new_engine(&world);
    let step = ctx.tier.pick(2, 1);
    for (i, g) in queries(ctx.tier).into_iter().enumerate() {
        if i % step != 0 && !g.limit {
            continue;
        }
        let case_id = format!("fixpoint :: {}", g.sql);
        if !ctx.wants(&case_id) {
            continue;
        }
        let first = guarded(|| -> Result<(Relation, String), String> {
            let rel = Relation::try_from(parse(&g.sql).map_err(|e| e.to_string())?.with(&relations)).map_err(|e| e.to_string())?;
            let text = ast::Query::from(&rel).to_string();
            Ok((rel, text))
        });
        let (rel, text) = match first {
            Ok(Ok(x)) => x,
            _ => continue,
        };
        r.evaluations += 1;
        let second = guarded(|| -> Result<(Relation, String), String> {
            let rel2 = Relation::try_from(parse(&text).map_err(|e| format!("parse: {e}"))?.with(&relations)).map_err(|e| format!("relation: {e}"))?;
            let text2 = ast::Query::from(&rel2).to_string();
            Ok((rel2, text2))
        });
        match second {
            Ok(Ok((rel2, text2))) => {
                r.distinct_nontrivial += 1;
                let a: Vec<(String, String)> = rel.schema().iter().map(|f| (f.name().to_string(), f.data_type().to_string())).collect();
                let b: Vec<(String, String)> = rel2.schema().iter().map(|f| (f.name().to_string(), f.data_type().to_string())).collect();
                let same_types = rel.schema().iter().zip(rel2.schema().iter()).all(|(x, y)| x.name() == y.name() && x.data_type() == y.data_type()) && a.len() == b.len();
                if !same_types {
                    r.violation(format!("fixpoint schema-differs :: {}", g.sql), &case_id, json!({"query": g.sql, "rendered": text, "schema": a, "schema_after_reparse": b}));
                    continue;
                }
                // same semantics: same results on every small database
                // (a LIMIT / OFFSET window needs three rows to show a window applied once, twice or three times)
                for db in world.databases(&g.tables, if g.limit && g.tables.len() == 1 { 3 } else { 2 }) {
                    crate::dpchecks::fill(&e, &world, &db);
                    match (e.query(&text), e.query(&text2)) {
                        (Ok(x), Ok(y)) => {
                            if !same_multiset(&x, &y, 1e-9) {
                                r.violation(format!("fixpoint results-differ :: {}", g.sql), &case_id, json!({"query": g.sql, "rendered": text, "rendered_again": text2, "first": x.show(), "second": y.show()}));
                                break;
                            }
                        }
                        (Ok(_), Err(err)) => {
                            r.violation(format!("fixpoint second-rendering-fails :: {}", g.sql), &case_id, json!({"query": g.sql, "rendered_again": text2, "error": err.chars().take(200).collect::<String>()}));
                            break;
                        }
                        _ => break,
                    }
                }
            }
            Ok(Err(err)) => {
                let kind = err.split(':').next().unwrap_or("?").to_string();
                r.violation(format!("fixpoint reparse-fails({kind}) :: {}", g.sql), &case_id, json!({"query": g.sql, "rendered": text, "error": err.chars().take(200).collect::<String>()}));
            }
            Err(p) => {
                r.violation(format!("fixpoint reparse-panics {} :: {}", p.site(), g.sql), &case_id, json!({"query": g.sql, "rendered": text, "panic": p.message}));
            }
        }
    }
}

pub fn run(ctx: &Ctx) -> Report {
    let mut r = Report::new("model_checking");
    // the only synchronisation of the crate must be the name counter (scanned at start-up)
    if let Ok(out) = std::process::Command::new("grep").args(["-rnE", "static [A-Z_]+: *(Mutex|RwLock|Atomic)|unsafe ", "/repo/src", "--include=*.rs"]).output() {
        let text = String::from_utf8_lossy(&out.stdout).to_string();
        let lines: Vec<&str> = text.lines().filter(|l| !l.contains("src/namer.rs") && !l.contains("src/verif.rs") && !l.contains("src/io/")).collect();
        if !lines.is_empty() {
            r.machinery_errors.push(format!("unexpected shared state / unsafe outside namer.rs: {:?}", lines.iter().take(3).collect::<Vec<_>>()));
        }
    }
    part_a(ctx, &mut r);
    part_b(ctx, &mut r);
    part_c(ctx, &mut r);
    r.rule = "(a) explicit-state BFS over the global name-counter: transitions = 6 counter-touching operations (random(), unnamed VALUES, row-privacy PUP, three DP rewritings), states = counter snapshots (H1 snapshot/restore, restore validated by replaying histories) to depth 2 (thorough 3); in every reachable state every operation of the alphabet (compile+render of the E-sql queries, duplicate-name / HAVING / random() queries, PUP and DP rewritings) gives the output it gives from the initial state, rendering twice is identical, and from the same state a repeated run gives the same output. (b) two (three) threads running short sequences of namer operations / compilations under a cooperative scheduler at the H1 scheduling point, all interleavings up to the preemption bound: ids distinct and dense, compile output independent of the schedule. (c) render -> parse -> render: same schema, same SQLite results. non-trivial = counter states + schedule outcomes + re-parsed queries".into();
    r.assumptions = vec![
        "interleavings are explored at the granularity of the crate's only lock (namer::count); memory-model effects below that are outside this check".into(),
        "the process-global counter forces part (a) to run sequentially in one process".into(),
    ];
    r
}
