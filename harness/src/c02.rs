//! C02 — no un-noised path from protected tables to a DP / published result.
//! (a) rule level: every consistent derivation the real setter + eliminator + selector produce for
//!     every E-sql relation x protected/public/synthetic assignment x strategy satisfies the label
//!     path invariant; the distinct (node kind, child labels -> label) transitions are the states;
//! (b) behavioural level ("data-dependent => noise-dependent"): the relation returned by the DP
//!     compiler is materialised on every neighbour pair (D, D minus u) with the noise-free script
//!     and with constant scripts; an output cell that follows protected rows must move with the
//!     random source.
use crate::common::*;
use crate::dpchecks::{dp_queries, fill, new_engine, units, without_unit};
use crate::sqlgen::queries;
use crate::sqlite::{Cell, Table};
use crate::world::{show_db, Db, World};
use qrlew::builder::With;
use qrlew::differential_privacy::DpParameters;
use qrlew::expr::Identifier;
use qrlew::hierarchy::Hierarchy;
use qrlew::privacy_unit_tracking::{PrivacyUnit, Strategy};
use qrlew::relation::{Relation, Variant as _};
use qrlew::rewriting::rewriting_rule::{RewritingRulesEliminator, RewritingRulesSelector, RewritingRulesSetter};
use qrlew::rewriting::RelationWithRewritingRule;
use qrlew::sql::parse;
use qrlew::synthetic_data::SyntheticData;
use serde_json::json;
use std::collections::{BTreeMap, BTreeSet};
use std::sync::Arc;

fn kind(r: &Relation) -> &'static str {
    match r {
        Relation::Table(_) => "table",
        Relation::Map(_) => "map",
        Relation::Reduce(_) => "reduce",
        Relation::Join(_) => "join",
        Relation::Set(_) => "set",
        Relation::Values(_) => "values",
    }
}

/// labels of the subtree: checks the invariant, returns the set of "unprotected exposure" labels
/// below (Priv / PUP reachable without crossing a DP node)
fn check_derivation(n: &RelationWithRewritingRule, protected: &BTreeSet<String>, transitions: &mut BTreeSet<String>, problems: &mut Vec<String>) -> bool {
    // returns: does the subtree (this node included) expose protected rows without a DP node above them?
    let out = n.attributes().output().to_string();
    let child_labels: Vec<String> = n.inputs().iter().map(|c| c.attributes().output().to_string()).collect();
    transitions.insert(format!("{}({}) -> {}", kind(n.relation()), child_labels.join(","), out));
    // rule inputs must be the children's outputs
    let rule_inputs: Vec<String> = n.attributes().inputs().iter().map(|p| p.to_string()).collect();
    if rule_inputs != child_labels {
        problems.push(format!("node {} applies {} to children labelled {:?}", n.relation().name(), n.attributes(), child_labels));
    }
    let mut exposed_below = false;
    for c in n.inputs() {
        exposed_below |= check_derivation(c, protected, transitions, problems);
    }
    if let Relation::Table(t) = n.relation() {
        if protected.contains(t.name()) && matches!(out.as_str(), "Pub" | "Pubd" | "DP") {
            problems.push(format!("protected table {} is labelled {}", t.name(), out));
        }
    }
    if out == "DP" {
        // a DP node is a Reduce over a privacy-unit-preserving child
        if !matches!(n.relation(), Relation::Reduce(_)) && !child_labels.iter().all(|l| l == "DP" || l == "Pub" || l == "Pubd") {
            if !(child_labels.len() == 1 && child_labels[0] == "PUP" && matches!(n.relation(), Relation::Reduce(_))) {
                problems.push(format!("node {} ({}) is labelled DP over children {:?}", n.relation().name(), kind(n.relation()), child_labels));
            }
        }
        return false; // the noise-adding aggregation shields what is below
    }
    let exposed = exposed_below || matches!(out.as_str(), "Priv" | "PUP");
    if matches!(out.as_str(), "Pub" | "Pubd") && exposed_below {
        problems.push(format!("node {} is labelled {} over protected rows (children {:?}) with no DP aggregation in between", n.relation().name(), out, child_labels));
    }
    if out == "SD" && child_labels.iter().any(|l| l == "Priv" || l == "PUP") {
        problems.push(format!("node {} is labelled SD over children {:?}", n.relation().name(), child_labels));
    }
    exposed
}

fn synthetic(mode: &str) -> Option<SyntheticData> {
    match mode {
        "none" => None,
        "full" => Some(SyntheticData::new(Hierarchy::from([
            (vec!["users"], Identifier::from("users_sd")),
            (vec!["orders"], Identifier::from("orders_sd")),
            (vec!["items"], Identifier::from("items_sd")),
            (vec!["m"], Identifier::from("m_sd")),
            (vec!["p"], Identifier::from("p_sd")),
            (vec!["q"], Identifier::from("q_sd")),
            (vec!["nu"], Identifier::from("nu_sd")),
            (vec!["ref"], Identifier::from("ref_sd")),
        ]))),
        _ => Some(SyntheticData::new(Hierarchy::from([(vec!["users"], Identifier::from("users_sd"))]))),
    }
}

fn part_a(ctx: &Ctx, head: &mut Report) {
    part_a_variant(ctx, head, "by-path");
    part_a_variant(ctx, head, "by-name");
    part_a_variant(ctx, head, "qualified");
}

/// `naming`: "by-path" = tables named after their SQL path, registered once; "by-name" = Qrlew names that differ from
/// the paths, registered under both (what Database::relations() builds), the privacy unit referring to the names
fn part_a_variant(ctx: &Ctx, head: &mut Report, naming: &'static str) {
    let world = World::standard();
    let relations = match naming {
        "by-name" => world.relations_named(),
        "qualified" => world.relations_qualified(),
        _ => world.relations(),
    };
    let mut subjects: Vec<(String, Arc<Relation>)> = vec![];
    let step = ctx.tier.pick(2, 1);
    for (i, g) in queries(ctx.tier).into_iter().enumerate() {
        if i % step != 0 {
            continue;
        }
        if let Ok(Ok(rel)) = guarded(|| parse(&g.sql).map_err(|e| e.to_string()).and_then(|q| Relation::try_from(q.with(&relations)).map_err(|e| e.to_string()))) {
            subjects.push((g.sql, Arc::new(rel)));
        }
    }
    let pus: Vec<(&str, PrivacyUnit, Vec<&str>)> = if naming == "by-name" {
        vec![
            ("all-protected-by-name", crate::c18::privacy_unit_named(), vec!["people", "purchases", "lines", "mm"]),
            ("users-only-by-name", PrivacyUnit::from((vec![("people", vec![], "id")], false)), vec!["people"]),
        ]
    } else if naming == "qualified" {
        // schema-qualified paths, default names (main_users ...): the privacy unit names the last path component
        vec![
            ("all-protected-qualified", crate::c18::privacy_unit(), vec!["main_users", "main_orders", "main_items", "main_m"]),
            ("users-only-qualified", PrivacyUnit::from((vec![("users", vec![], "id")], false)), vec!["main_users"]),
        ]
    } else {
        vec![
            ("all-protected", crate::c18::privacy_unit(), vec!["users", "orders", "items", "m"]),
            ("users-only", PrivacyUnit::from((vec![("users", vec![], "id")], false)), vec!["users"]),
        ]
    };
    let relations = &relations;
    let pus = &pus;
    let body = par_reports_isolated(subjects, "model_checking", move |(sql, rel), r| {
        for (pname, pu, prot) in pus.iter() {
            let protected: BTreeSet<String> = prot.iter().map(|s| s.to_string()).collect();
            for sd in ["none", "full", "partial"] {
                for (sname, strat) in [("hard", Strategy::Hard), ("soft", Strategy::Soft)] {
                    let case_id = format!("rules :: {} [pu={pname} sd={sd} strategy={sname}]", sql);
                    r.evaluations += 1;
                    let res = guarded(|| {
                        let with_rules = rel.set_rewriting_rules(RewritingRulesSetter::new(relations, synthetic(sd), pu.clone(), DpParameters::from_epsilon_delta(1.0, 1e-3), strat));
                        let with_rules = with_rules.map_rewriting_rules(RewritingRulesEliminator);
                        let derivs = with_rules.select_rewriting_rules(RewritingRulesSelector);
                        let mut transitions = BTreeSet::new();
                        let mut problems: Vec<(String, Vec<String>)> = vec![];
                        let n = derivs.len();
                        for d in &derivs {
                            let mut p = vec![];
                            check_derivation(d, &protected, &mut transitions, &mut p);
                            if !p.is_empty() {
                                problems.push((qrlew::verif::describe(d), p));
                            }
                        }
                        (n, transitions, problems)
                    });
                    match res {
                        Ok((n, transitions, problems)) => {
                            r.add_count("derivations_checked", n as u64);
                            if r.samples.is_empty() && n > 1 {
                                r.sample(json!({"rule_level": {"query": sql, "setting": format!("pu={pname} sd={sd} strategy={sname}"), "derivations_enumerated_by_the_real_selector": n, "label_transitions_seen": transitions.iter().take(6).collect::<Vec<_>>()}}));
                            }
                            r.add_count("transitions", n as u64);
                            if n > 0 {
                                r.distinct_nontrivial += 1;
                            }
                            for t in transitions {
                                r.reach("label_transitions", &t);
                            }
                            if let Some((d, p)) = problems.first() {
                                let first = p[0].clone();
                                let class = if first.contains("protected table") { "protected-table-public" } else if first.contains("with no DP aggregation") { "published-over-protected" } else if first.contains("labelled SD over") { "synthetic-over-protected" } else if first.contains("labelled DP over") { "dp-not-over-pup-reduce" } else { "rule-inputs-mismatch" };
                                r.violation(format!("rule-invariant {class} pu={pname} sd={sd}"), &case_id, json!({"query": sql, "derivation": d, "problems": p, "setting": format!("pu={pname} sd={sd} strategy={sname}")}));
                            }
                        }
                        Err(p) => r.reach("panics(left to C18)", &p.site()),
                    }
                }
            }
        }
    });
    head.merge(body);
    // the distinct label transitions are the states of the rule system
    let n_states = head.extra.get("label_transitions").and_then(|m| m.as_object()).map(|m| m.len()).unwrap_or(0);
    head.set("states", n_states as u64);
    head.set("traces_validated_against_impl", head.extra.get("derivations_checked").cloned().unwrap_or(json!(0)));
}

// ---------------------------------------------------------------------------------------

fn classify_columns(sql: &str, cols: &[String]) -> Vec<bool> {
    // true = key column (not an aggregate): from the select list of the query
    let mut keys = vec![true; cols.len()];
    if let Ok(q) = parse(sql) {
        if let qrlew::ast::SetExpr::Select(s) = q.body.as_ref() {
            for (i, it) in s.projection.iter().enumerate() {
                let text = it.to_string().to_lowercase();
                let agg = ["count(", "sum(", "avg(", "variance(", "stddev(", "min(", "max("].iter().any(|f| text.contains(f));
                if i < keys.len() {
                    keys[i] = !agg;
                }
            }
        }
    }
    keys
}

fn cells(t: &Table, keys: &[bool]) -> BTreeMap<(String, usize), Cell> {
    let mut m = BTreeMap::new();
    for row in &t.rows {
        let k: Vec<String> = (0..row.len()).filter(|i| keys.get(*i).copied().unwrap_or(true)).map(|i| row[i].show()).collect();
        let k = k.join("|");
        m.insert((k.clone(), usize::MAX), Cell::Int(1)); // row presence
        for (i, c) in row.iter().enumerate() {
            if !keys.get(i).copied().unwrap_or(true) {
                m.insert((k.clone(), i), c.clone());
            }
        }
    }
    m
}

fn part_b(ctx: &Ctx, head: &mut Report) {
    if let Err(e) = crate::sqlite::self_test() {
        head.machinery_errors.push(e);
        return;
    }
    let world = if ctx.tier == Tier::Quick { World::compact() } else { World::standard() };
    let relations_by_path = world.relations();
    let relations_by_name = world.relations_named();
    let relations_qualified = world.relations_qualified();
    // programs: the DP aggregation queries, plus plain queries (published through synthetic data)
    let mut programs: Vec<(String, Vec<&'static str>)> = dp_queries(ctx.tier).into_iter().map(|q| (q.sql, q.tables)).collect();
    for (sql, t) in [
        ("SELECT id, age FROM users WHERE age > 18", vec!["users"]),
        ("SELECT user_id, amount FROM orders", vec!["users", "orders"]),
        ("SELECT max(amount) AS m FROM orders", vec!["users", "orders"]),
        ("SELECT u.city, o.amount FROM users u JOIN orders o ON u.id = o.user_id", vec!["users", "orders"]),
        ("SELECT city FROM users UNION SELECT city FROM ref", vec!["users", "ref"]),
        ("SELECT zone, count(*) AS c FROM ref GROUP BY zone", vec!["ref"]),
        // post-processing stacked on top of a DP aggregation (projection / filter / aggregate of the released
        // values through a CTE or a derived table): the nodes above the mechanism only pass its output through
    ] {
        programs.push((sql.to_string(), t));
    }
    // the key columns of the post-processing programs are given by name (every other column derives from an aggregate)
    let post: Vec<(&str, Vec<&'static str>, Vec<&str>)> = vec![
        ("WITH s AS (SELECT city, sum(age) AS s FROM users GROUP BY city) SELECT city, s FROM s WHERE s > 10", vec!["users"], vec!["city"]),
        ("SELECT max(c) AS m FROM (SELECT city, count(age) AS c FROM users GROUP BY city) AS t", vec!["users"], vec![]),
        ("SELECT c + 1 AS c1 FROM (SELECT count(*) AS c FROM users) AS t", vec!["users"], vec![]),
        ("WITH s AS (SELECT count(*) AS c, sum(age) AS a FROM users), t AS (SELECT c, a FROM s) SELECT a - c AS d FROM t", vec!["users"], vec![]),
        ("SELECT t.city, t.s * 2 AS d FROM (SELECT u.city AS city, sum(o.amount) AS s FROM users u JOIN orders o ON u.id = o.user_id GROUP BY u.city) AS t WHERE t.s > 1", vec!["users", "orders"], vec!["city"]),
    ];
    let explicit_keys: BTreeMap<String, Vec<String>> = post.iter().map(|(s, _, k)| (s.to_string(), k.iter().map(|x| x.to_string()).collect())).collect();
    for (sql, t, _) in &post {
        programs.push((sql.to_string(), t.clone()));
    }
    struct Prog {
        sql: String,
        tables: Vec<&'static str>,
        sd: &'static str,
        naming: &'static str,
        rewritten: Arc<Relation>,
        keys: Vec<bool>,
    }
    let mut progs: Vec<Prog> = vec![];
    for (sql, tables) in programs {
        for (sd, naming) in [("none", "by-path"), ("full", "by-path"), ("partial", "by-path"), ("none", "by-name"), ("none", "qualified")] {
            let id = if naming == "by-path" { format!("flow :: {} [sd={sd}]", sql) } else { format!("flow :: {} [sd={sd} naming={naming}]", sql) };
            if !ctx.wants(&id) {
                continue;
            }
            let (relations, pu) = match naming {
                "by-name" => (&relations_by_name, crate::c18::privacy_unit_named()),
                "qualified" => (&relations_qualified, crate::c18::privacy_unit()),
                _ => (&relations_by_path, crate::c18::privacy_unit()),
            };
            let r = guarded(|| -> Result<Relation, String> {
                let rel = Relation::try_from(parse(&sql).map_err(|e| e.to_string())?.with(relations)).map_err(|e| e.to_string())?;
                let dp = DpParameters::new(1.0, 1e-3, 0.5, 100.0, 1.0, 1);
                let out = rel.rewrite_with_differential_privacy(relations, synthetic(sd), pu, dp).map_err(|e| e.to_string())?;
                Ok(out.relation().clone())
            });
            match r {
                Ok(Ok(rel)) => {
                    let cols: Vec<String> = rel.schema().iter().map(|f| f.name().to_string()).collect();
                    let keys = match explicit_keys.get(&sql) {
                        Some(names) => cols.iter().map(|c| names.contains(c)).collect(),
                        None => classify_columns(&sql, &cols),
                    };
                    head.reach("accepted_by_sd_mode", sd);
                    head.reach("accepted_by_naming", naming);
                    progs.push(Prog { sql: sql.clone(), tables: tables.clone(), sd, naming, rewritten: Arc::new(rel), keys });
                }
                Ok(Err(_)) => head.add_count("refused", 1),
                Err(p) => head.reach("panic_sites(left to C18)", &p.site()),
            }
        }
    }
    head.set("flow_programs", progs.len() as u64);
    let mut by_tables: BTreeMap<Vec<&'static str>, Vec<Prog>> = BTreeMap::new();
    for p in progs {
        by_tables.entry(p.tables.clone()).or_default().push(p);
    }
    let tier = ctx.tier;
    for (tables, ps) in by_tables {
        let n = match (tier, tables.len()) {
            (Tier::Quick, _) => 2,
            (Tier::Thorough, _) => 3,
        };
        let dbs = world.databases(&tables, n);
        let chunk = (dbs.len() / 48).max(1);
        let chunks: Vec<Vec<Db>> = dbs.chunks(chunk).map(|c| c.to_vec()).collect();
        let world = &world;
        let ps = &ps;
        let part = par_reports(chunks, "model_checking", move |dbs, r| {
            let e = new_engine(world);
            e.conn.set_prepared_statement_cache_capacity(512);
            // the synthetic replacements: independent tables with fixed rows
            let _ = e.exec(
                "CREATE TABLE users_sd(id, age, city); INSERT INTO users_sd VALUES (1,19,'A'),(2,19,'B');
                 CREATE TABLE orders_sd(id, user_id, amount); INSERT INTO orders_sd VALUES (1,1,5.0),(2,2,5.0);
                 CREATE TABLE items_sd(order_id, price, qty); INSERT INTO items_sd VALUES (1,1.0,1);
                 CREATE TABLE m_sd(k, v); INSERT INTO m_sd VALUES (0.5,1);
                 CREATE TABLE ref_sd(city, zone); INSERT INTO ref_sd VALUES ('A',1),('B',2);",
            );
            for p in ps.iter() {
                let case_id = if p.naming == "by-path" { format!("flow :: {} [sd={}]", p.sql, p.sd) } else { format!("flow :: {} [sd={} naming={}]", p.sql, p.sd, p.naming) };
                let plan = match e.plan(&p.rewritten) {
                    Ok(pl) => pl,
                    Err(err) => {
                        r.reach("materialisation_errors", &err.chars().take(80).collect::<String>());
                        continue;
                    }
                };
                'db: for db in dbs.iter() {
                    let us = units(db);
                    if us.is_empty() {
                        continue;
                    }
                    fill(&e, world, db);
                    e.set_script(vec![], None);
                    let a0 = match e.run_plan(&plan, Some(&[])) {
                        Ok(x) => x.0,
                        Err(err) => {
                            r.reach("materialisation_errors", &err.chars().take(80).collect::<String>());
                            continue;
                        }
                    };
                    let mut moved: Vec<BTreeMap<(String, usize), Cell>> = vec![];
                    for c in [0.5, 0.9, 0.1] {
                        e.set_script(vec![], Some(c));
                        if let Ok(x) = e.run_plan(&plan, Some(&[])) {
                            moved.push(cells(&x.0, &p.keys));
                        }
                    }
                    let ca = cells(&a0, &p.keys);
                    for u in us {
                        let d2 = without_unit(db, u);
                        fill(&e, world, &d2);
                        e.set_script(vec![], None);
                        let b0 = match e.run_plan(&plan, Some(&[])) {
                            Ok(x) => x.0,
                            Err(_) => continue,
                        };
                        r.evaluations += 1;
                        let cb = cells(&b0, &p.keys);
                        let all: BTreeSet<&(String, usize)> = ca.keys().chain(cb.keys()).collect();
                        for k in all {
                            let (x, y) = (ca.get(k), cb.get(k));
                            let differs = match (x, y) {
                                (Some(x), Some(y)) => !x.close(y, 1e-12),
                                (None, None) => false,
                                _ => true,
                            };
                            if !differs {
                                continue;
                            }
                            r.distinct_nontrivial += 1;
                            if r.samples.is_empty() {
                                r.sample(json!({"flow_test": {"query": p.sql, "synthetic_data": p.sd, "naming": p.naming, "database": show_db(db), "removed_unit": u, "cell": {"group": k.0, "column": if k.1 == usize::MAX { json!("(row presence)") } else { json!(a0.cols.get(k.1)) }}, "on_D": x.map(|c| c.show()), "on_D_minus_u": y.map(|c| c.show()), "values_under_constant_scripts": moved.iter().map(|m| m.get(k).map(|c| c.show())).collect::<Vec<_>>()}}));
                            }
                            // protected rows influence this cell: it has to respond to the random source
                            let responds = moved.iter().any(|m| match (m.get(k), x) {
                                (Some(a), Some(b)) => !a.close(b, 1e-12),
                                (None, None) => false,
                                _ => true,
                            });
                            if !responds {
                                let what = if k.1 == usize::MAX { "row-presence" } else { "cell" };
                                r.violation(
                                    format!("plain-function-of-protected-rows {what} sd={}{} :: {}", p.sd, if p.naming == "by-path" { String::new() } else { format!(" naming={}", p.naming) }, p.sql),
                                    &case_id,
                                    json!({"query": p.sql, "synthetic_data": p.sd, "database": show_db(db), "removed_unit": u, "group": k.0, "column": if k.1 == usize::MAX { json!("(row presence)") } else { json!(a0.cols.get(k.1)) },
                                           "on_D": x.map(|c| c.show()), "on_D_minus_u": y.map(|c| c.show()), "result_on_D": a0.show(), "result_on_D_minus_u": b0.show(),
                                           "note": "the value follows the protected rows but is identical under the noise-free and the constant random scripts 0.5 / 0.9 / 0.1"}),
                                );
                                continue 'db;
                            }
                        }
                    }
                }
                e.drop_plan(&plan);
            }
        });
        head.merge(part);
    }
}

pub fn run(ctx: &Ctx) -> Report {
    let mut r = Report::new("model_checking");
    if ctx.replay.as_ref().map_or(true, |x| x.starts_with("rules") || x.starts_with('~')) {
        part_a(ctx, &mut r);
    }
    if ctx.replay.as_ref().map_or(true, |x| x.starts_with("flow") || x.starts_with('~')) {
        part_b(ctx, &mut r);
    }
    r.rule = "(a) every derivation the real setter -> eliminator -> selector produce for every E-sql relation (quick: every second) x {all protected, users only} x synthetic data {none, full, partial} x {Hard, Soft}: rule inputs = children's labels; a Public / Published node has no Private / PUP descendant without a DP node in between; DP only on a Reduce over PUP; a protected table is never Public / Published / DP; SD never over Private / PUP. states = distinct (node kind, child labels -> label) transitions observed. (b) flow test: DP aggregation queries and plain queries x synthetic data {none, full, partial map} x ALL databases x EVERY unit u: the returned relation is materialised on D and D minus u with the noise-free script and on D with the constant scripts 0.5 / 0.9 / 0.1; a cell (or row presence) that differs between D and D minus u must differ on D under some constant script. non-trivial = cells that follow protected rows".into();
    r.assumptions = vec!["(b) knows nothing about how the IR spells its mechanisms; how much noise is C01 / C03 / C04".into(), "synthetic replacements are independent fixed tables of the test database".into()];
    r
}
