//! ad-hoc probes (development aid, not a check)
use qrlew::data_type::{value::Value, DataType};
use qrlew::expr::function::Function;

pub fn run() {
    {
        use qrlew::data_type::intervals::Intervals;
        let t1 = DataType::Float(Intervals::from_values([-3.0, -2.0, -1.0, 0.0]));
        let t2 = DataType::integer_interval(-3, 0);
        let mut outcomes = std::collections::BTreeMap::new();
        for _ in 0..200 {
            let r = crate::common::guarded(|| Function::Modulo.super_image(&[t1.clone(), t2.clone()]));
            let k = match r { Ok(Ok(t)) => format!("ok {t}"), Ok(Err(e)) => format!("err {e}"), Err(p) => format!("panic {}", p.site()) };
            *outcomes.entry(k).or_insert(0) += 1;
        }
        println!("modulo image outcomes: {:?}", outcomes);
        let a = DataType::integer_interval(-3, 5);
        let fl = Function::Floor.super_image(&[a.clone()]).unwrap();
        println!("floor image {fl} {:?}", fl);
        let mut outcomes = std::collections::BTreeMap::new();
        for _ in 0..200 {
            let r = crate::common::guarded(|| Function::Modulo.super_image(&[fl.clone(), a.clone()]));
            let k = match r { Ok(Ok(t)) => format!("ok {t}"), Ok(Err(e)) => format!("err {e}"), Err(p) => format!("panic {}", p.site()) };
            print!("{}", if k.starts_with("ok") { 'o' } else { 'p' });
            *outcomes.entry(k).or_insert(0) += 1;
        }
        println!("\nmodulo(floor) image outcomes: {:?}", outcomes);
    }
    let cases: Vec<(Function, Vec<DataType>, Vec<Value>)> = vec![
        (Function::Divide, vec![DataType::integer_interval(1, 5), DataType::integer_interval(1, 5)], vec![Value::integer(4), Value::integer(2)]),
        (Function::Divide, vec![DataType::float_interval(1., 5.), DataType::float_interval(1., 5.)], vec![Value::float(4.), Value::float(2.)]),
        (Function::Md5, vec![DataType::text()], vec![Value::text("a")]),
        (Function::Like, vec![DataType::text(), DataType::text()], vec![Value::text("a"), Value::text("a%")]),
        (Function::CastAsDate, vec![DataType::text()], vec![Value::text("2020-01-01")]),
        (Function::Unhex, vec![DataType::text()], vec![Value::text("41")]),
        (Function::RegexpContains, vec![DataType::text(), DataType::text()], vec![Value::text("a"), Value::text("a")]),
    ];
    for (f, ts, vs) in cases {
        let img = crate::common::guarded(|| f.super_image(&ts));
        let val = crate::common::guarded(|| f.value(&vs));
        println!("{:?}: image={:?} value={:?}", f, img.map(|r| r.map(|t| t.to_string()).map_err(|e| e.to_string())).map_err(|p| p.site()), val.map(|r| r.map(|t| t.to_string()).map_err(|e| e.to_string())).map_err(|p| format!("{} {}", p.site(), p.message)));
    }
}
