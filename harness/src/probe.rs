//! ad-hoc probes (development aid, not a check)
use qrlew::data_type::{value::Value, DataType};
use qrlew::expr::function::Function;

pub fn run() {
    let cases: Vec<(Function, Vec<DataType>, Vec<Value>)> = vec![
        (Function::Divide, vec![DataType::integer_interval(1, 5), DataType::integer_interval(1, 5)], vec![Value::integer(4), Value::integer(2)]),
        (Function::Divide, vec![DataType::float_interval(1., 5.), DataType::float_interval(1., 5.)], vec![Value::float(4.), Value::float(2.)]),
        (Function::Md5, vec![DataType::text()], vec![Value::text("a")]),
        (Function::Like, vec![DataType::text(), DataType::text()], vec![Value::text("a"), Value::text("a%")]),
        (Function::CastAsDate, vec![DataType::text()], vec![Value::text("2020-01-01")]),
        (Function::Unhex, vec![DataType::text()], vec![Value::text("41")]),
        (Function::RegexpContains, vec![DataType::text(), DataType::text()], vec![Value::text("a"), Value::text("a")]),
    ];
    for (f, ts, vs) in cases {
        let img = crate::common::guarded(|| f.super_image(&ts));
        let val = crate::common::guarded(|| f.value(&vs));
        println!("{:?}: image={:?} value={:?}", f, img.map(|r| r.map(|t| t.to_string()).map_err(|e| e.to_string())).map_err(|p| p.site()), val.map(|r| r.map(|t| t.to_string()).map_err(|e| e.to_string())).map_err(|p| format!("{} {}", p.site(), p.message)));
    }
}
