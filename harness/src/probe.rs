//! ad-hoc probes (development aid, not a check)
use qrlew::data_type::{value::Value, DataType};
use qrlew::expr::function::Function;

pub fn run() {
    {
        use qrlew::data_type::intervals::Intervals;
        let t1 = DataType::Float(Intervals::from_values([-3.0, -2.0, -1.0, 0.0]));
        let t2 = DataType::integer_interval(-3, 0);
        let mut outcomes = std::collections::BTreeMap::new();
        for _ in 0..200 {
            let r = crate::common::guarded(|| Function::Modulo.super_image(&[t1.clone(), t2.clone()]));
            let k = match r { Ok(Ok(t)) => format!("ok {t}"), Ok(Err(e)) => format!("err {e}"), Err(p) => format!("panic {}", p.site()) };
            *outcomes.entry(k).or_insert(0) += 1;
        }
        println!("modulo image outcomes: {:?}", outcomes);
        let a = DataType::integer_interval(-3, 5);
        let fl = Function::Floor.super_image(&[a.clone()]).unwrap();
        println!("floor image {fl} {:?}", fl);
        let mut outcomes = std::collections::BTreeMap::new();
        for _ in 0..200 {
            let r = crate::common::guarded(|| Function::Modulo.super_image(&[fl.clone(), a.clone()]));
            let k = match r { Ok(Ok(t)) => format!("ok {t}"), Ok(Err(e)) => format!("err {e}"), Err(p) => format!("panic {}", p.site()) };
            print!("{}", if k.starts_with("ok") { 'o' } else { 'p' });
            *outcomes.entry(k).or_insert(0) += 1;
        }
        println!("\nmodulo(floor) image outcomes: {:?}", outcomes);
    }
    let cases: Vec<(Function, Vec<DataType>, Vec<Value>)> = vec![
        (Function::Divide, vec![DataType::integer_interval(1, 5), DataType::integer_interval(1, 5)], vec![Value::integer(4), Value::integer(2)]),
        (Function::Divide, vec![DataType::float_interval(1., 5.), DataType::float_interval(1., 5.)], vec![Value::float(4.), Value::float(2.)]),
        (Function::Md5, vec![DataType::text()], vec![Value::text("a")]),
        (Function::Like, vec![DataType::text(), DataType::text()], vec![Value::text("a"), Value::text("a%")]),
        (Function::CastAsDate, vec![DataType::text()], vec![Value::text("2020-01-01")]),
        (Function::Unhex, vec![DataType::text()], vec![Value::text("41")]),
        (Function::RegexpContains, vec![DataType::text(), DataType::text()], vec![Value::text("a"), Value::text("a")]),
    ];
    for (f, ts, vs) in cases {
        let img = crate::common::guarded(|| f.super_image(&ts));
        let val = crate::common::guarded(|| f.value(&vs));
        println!("{:?}: image={:?} value={:?}", f, img.map(|r| r.map(|t| t.to_string()).map_err(|e| e.to_string())).map_err(|p| p.site()), val.map(|r| r.map(|t| t.to_string()).map_err(|e| e.to_string())).map_err(|p| format!("{} {}", p.site(), p.message)));
    }
}

/// `qv probe-sql "<sql>" [sd]`: compile one query over E-world, print the relation, the rendering, and the
/// outcome of both rewritings, with the default panic hook (backtraces) — development aid only.
pub fn run_sql(sql: &str, sd: bool) {
    use qrlew::builder::With;
    use qrlew::differential_privacy::DpParameters;
    use qrlew::relation::{Relation, Variant as _};
    use qrlew::privacy_unit_tracking::Strategy;
    let _ = std::panic::take_hook();
    let world = crate::world::World::standard();
    let relations = world.relations();
    let q = qrlew::sql::parse(sql).expect("parse");
    let rel = Relation::try_from(q.with(&relations)).expect("relation");
    println!("relation: {}", rel);
    println!("schema: {}  size: {}", rel.schema(), rel.size());
    println!("rendered: {}", qrlew::ast::Query::from(&rel));
    let synthetic = if sd {
        Some(qrlew::synthetic_data::SyntheticData::new(qrlew::hierarchy::Hierarchy::from([
            (vec!["users"], qrlew::expr::Identifier::from("users_sd")),
            (vec!["orders"], qrlew::expr::Identifier::from("orders_sd")),
            (vec!["items"], qrlew::expr::Identifier::from("items_sd")),
            (vec!["ref"], qrlew::expr::Identifier::from("ref_sd")),
        ])))
    } else {
        None
    };
    let pu = crate::c18::privacy_unit();
    let dp = DpParameters::from_epsilon_delta(1.0, 1e-3);
    for strat in [Strategy::Soft, Strategy::Hard] {
        match rel.rewrite_as_privacy_unit_preserving(&relations, synthetic.clone(), pu.clone(), dp.clone(), Some(strat)) {
            Ok(r) => println!("PUP {:?}: {}", strat, qrlew::ast::Query::from(r.relation())),
            Err(e) => println!("PUP {:?}: Err {}", strat, e),
        }
    }
    match rel.rewrite_with_differential_privacy(&relations, synthetic.clone(), pu.clone(), dp.clone()) {
        Ok(r) => println!("DP: {}\nevent: {:?}", qrlew::ast::Query::from(r.relation()), r.dp_event()),
        Err(e) => println!("DP: Err {}", e),
    }
}
