//! qv — bounded-exhaustive checks of the properties in /verif/properties.jsonl against /repo.
//! usage: qv <ID> <quick|thorough> [--replay <file>]
mod c02;
mod c04;
mod c05;
mod c06;
mod c10;
mod c11;
mod c12;
mod c13;
mod c15;
mod c16;
mod c17;
mod c18;
mod sqlchecks;
mod sqlgen;
mod sqlgen2;
mod sqlite;
mod world;
mod common;
mod dpchecks;
mod dpdump;
mod dpir;
mod features;
mod grids;
mod probe;
mod refm;

use common::*;
use std::time::Instant;

fn main() {
    let args: Vec<String> = std::env::args().collect();
    if args.len() < 3 {
        eprintln!("usage: qv <ID> <quick|thorough> [--replay <file>]");
        std::process::exit(2);
    }
    let id = args[1].clone();
    if id == "dpdump" {
        install_panic_hook();
        dpdump::run(&args[2]);
        return;
    }
    if id == "sqlgen2" {
        // qv sqlgen2 <depth>: list the composed queries (development aid)
        let d: usize = args[2].parse().unwrap_or(1);
        let rels = sqlgen2::compose(d);
        for r in &rels {
            println!("{}\t{}", r.term, r.sql);
        }
        eprintln!("{} queries", rels.len());
        return;
    }
    if id == "probe-sql" {
        probe::run_sql(&args[2], args.get(3).map_or(false, |a| a == "sd"));
        return;
    }
    if id == "C18-child" {
        // qv C18-child <tier> <shard> <nshards> <from> <out>
        let tier = if args[2] == "quick" { Tier::Quick } else { Tier::Thorough };
        install_panic_hook();
        c18::child(tier, args[3].parse().unwrap(), args[4].parse().unwrap(), args[5].parse().unwrap(), &args[6]);
        return;
    }
    let tier = match args[2].as_str() {
        "quick" => Tier::Quick,
        "thorough" => Tier::Thorough,
        _ => {
            eprintln!("tier must be quick or thorough");
            std::process::exit(2);
        }
    };
    let mut replay = None;
    if let Some(i) = args.iter().position(|a| a == "--replay") {
        let path = args.get(i + 1).expect("--replay needs a file");
        let text = std::fs::read_to_string(path).expect("cannot read replay file");
        let j: serde_json::Value = serde_json::from_str(&text).expect("replay file is not JSON");
        replay = Some(j["case_id"].as_str().expect("replay file has no case_id").to_string());
    }
    if let Some(i) = args.iter().position(|a| a == "--only") {
        replay = Some(format!("~{}", args.get(i + 1).expect("--only needs a substring")));
    }
    let seed = std::env::var("VERIF_SEED").ok().and_then(|s| s.parse().ok()).unwrap_or(0u64);
    let budget_s = std::env::var("QV_BUDGET_S")
        .ok()
        .and_then(|s| s.parse().ok())
        .unwrap_or(match tier {
            Tier::Quick => 40.0,
            Tier::Thorough => 1500.0,
        });
    let ctx = Ctx { id: id.clone(), tier, seed, replay, start: Instant::now(), budget_s };
    install_panic_hook();
    let threads = std::env::var("QV_THREADS").ok().and_then(|s| s.parse().ok()).unwrap_or(16usize);
    rayon::ThreadPoolBuilder::new()
        .num_threads(threads)
        .stack_size(64 << 20)
        .build_global()
        .unwrap();
    let report = match id.as_str() {
        "C01" => dpchecks::run(&ctx, dpchecks::Which::C01),
        "C03" => dpchecks::run(&ctx, dpchecks::Which::C03),
        "C09" => dpchecks::run(&ctx, dpchecks::Which::C09),
        "C02" => c02::run(&ctx),
        "C04" => c04::run(&ctx),
        "C05" => c05::run(&ctx),
        "C13" => c13::run(&ctx),
        "C16" => c16::run(&ctx),
        "C06" => c06::run(&ctx),
        "C07" => sqlchecks::run_sql_check(&ctx, sqlchecks::Which::C07),
        "C08" => sqlchecks::run_sql_check(&ctx, sqlchecks::Which::C08),
        "C14" => sqlchecks::run_sql_check(&ctx, sqlchecks::Which::C14),
        "C10" => c10::run(&ctx),
        "C11" => c11::run(&ctx),
        "C12" => c12::run(&ctx),
        "C15" => c15::run(&ctx),
        "C17" => c17::run(&ctx),
        "C18" => c18::run(&ctx),
        "probe" => {
            probe::run();
            std::process::exit(0)
        }
        _ => {
            eprintln!("unknown property {id}");
            std::process::exit(2);
        }
    };
    std::process::exit(finish(&ctx, report));
}
