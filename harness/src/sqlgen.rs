//! E-sql: deterministic enumeration of queries of the supported SQL fragment over E-world.
use crate::common::Tier;

#[derive(Clone, Debug, PartialEq)]
pub enum Order {
    /// no ORDER BY: compare multisets
    None,
    /// ORDER BY whose keys determine a total order of the result rows
    Total,
    /// ORDER BY with possible ties
    Partial,
}

#[derive(Clone, Debug)]
pub struct GenQuery {
    pub sql: String,
    pub tables: Vec<&'static str>,
    pub tags: Vec<&'static str>,
    pub order: Order,
    pub limit: bool,
    /// constructor term (composed queries of sqlgen2 only)
    pub term: Option<String>,
    /// texts of the strict sub-queries of a composed query
    pub subqueries: Vec<String>,
    pub nondeterministic: bool,
    /// explore only the database instances with at most this many rows in total
    pub max_total_rows: usize,
}

fn q(sql: String, tables: &[&'static str], tags: &[&'static str]) -> GenQuery {
    GenQuery { sql, tables: tables.to_vec(), tags: tags.to_vec(), order: Order::None, limit: false, term: None, subqueries: vec![], nondeterministic: false, max_total_rows: usize::MAX }
}

pub fn queries(tier: Tier) -> Vec<GenQuery> {
    let thorough = tier == Tier::Thorough;
    let mut out: Vec<GenQuery> = vec![];

    // ---- F1/F2: projections and filters on one table ------------------------------------
    let user_items: Vec<&str> = vec![
        "id",
        "age",
        "city",
        "*",
        "id, age",
        "age AS a",
        "age + 1 AS a1",
        "age * 2 AS d, id",
        "-age AS n",
        "abs(age - 19) AS x",
        "age - id AS m, city",
        "CASE WHEN age > 18 THEN 1 ELSE 0 END AS old",
        "CASE WHEN city = 'A' THEN age ELSE id END AS c",
        "upper(city) AS u",
        "lower(city) AS l, age",
        "age > 18 AS b",
        "CAST(age AS FLOAT) AS f",
        "CAST(id AS TEXT) AS t",
        "age + id * 2 AS e",
        "(age + id) * 2 AS e",
        "age % 2 AS r",
        "id, id AS id2",
        "city AS \"my col\", age AS \"select\"",
        "'a''b' AS lit, id",
        "'é x' AS lit2, age",
        "greatest(age, 19) AS g, least(id, 2) AS l",
        "sqrt(age) AS s, exp(id) AS e, ln(age) AS l",
        "age / 2 AS h",
        "city || 'x' AS cx",
        "coalesce(age, 0) AS ca",
        // several WHEN branches whose conditions overlap; an earlier branch gives the same result as ELSE
        "age <= 18 AS le, age >= 20 AS ge, 20 <= age AS ge2, id",
        "CASE WHEN age > 19 THEN 0 WHEN age > 17 THEN 1 ELSE 0 END AS c3, id",
        "CASE WHEN id = 1 THEN 'x' WHEN age > 19 THEN 'y' WHEN id < 3 THEN 'x' ELSE 'y' END AS c4",
    ];
    let user_preds: Vec<&str> = vec![
        "",
        "age > 18",
        "age >= 19 AND city = 'A'",
        "age < 20 OR id = 3",
        "NOT (city = 'A')",
        "id IN (1, 3)",
        "city IN ('A')",
        "age BETWEEN 18 AND 19",
        "id <> 2",
        "age > 18 AND age < 20",
        "id > 5",
        "age + 1 > 19",
        "19 < age",
        "id = age - 17",
        "city = 'B' AND (id = 1 OR id = 2)",
    ];
    for (i, items) in user_items.iter().enumerate() {
        for (j, p) in user_preds.iter().enumerate() {
            if !thorough && !(j == 0 || (i + j) % 5 == 0) {
                continue;
            }
            let w = if p.is_empty() { String::new() } else { format!(" WHERE {p}") };
            out.push(q(format!("SELECT {items} FROM users{w}"), &["users"], &["projection", if p.is_empty() { "nofilter" } else { "filter" }]));
        }
    }
    let order_items: Vec<&str> = vec![
        "id",
        "amount",
        "*",
        "amount IS NULL AS n, id",
        "coalesce(amount, 0) AS a0",
        "amount + 1 AS a1, user_id",
        "CASE WHEN amount > 5 THEN 'hi' ELSE 'lo' END AS lvl",
        "amount * user_id AS p",
        "id, user_id AS u",
        "amount / 2 AS h",
        "CAST(amount AS INTEGER) AS ai",
        // comparisons against the declared bounds of the column, used as values (the only rows that make them true
        // sit exactly on the bound)
        "amount <= 0 AS le, amount >= 10 AS ge, id",
        "10 <= amount AS a, 0 >= amount AS b, amount < 0 AS c, amount > 10 AS d",
        "CASE WHEN amount <= 0 THEN 'lo' ELSE 'hi' END AS lvl0, id",
    ];
    let order_preds: Vec<&str> = vec!["", "amount > 5", "amount IS NULL", "amount IS NOT NULL AND user_id = 1", "amount >= 0 OR user_id = 2", "user_id IN (1)", "NOT (amount > 5)", "amount = 10"];
    for (i, items) in order_items.iter().enumerate() {
        for (j, p) in order_preds.iter().enumerate() {
            if !thorough && !(j == 0 || (i + j) % 3 == 0) {
                continue;
            }
            let w = if p.is_empty() { String::new() } else { format!(" WHERE {p}") };
            out.push(q(format!("SELECT {items} FROM orders{w}"), &["orders"], &["projection", "nullable"]));
        }
    }

    // ---- F3: aggregations ------------------------------------------------------------------
    let user_aggs: Vec<&str> = vec![
        "count(*) AS c",
        "count(age) AS c, sum(age) AS s",
        "avg(age) AS a",
        "min(age) AS lo, max(age) AS hi",
        "sum(age) + 1 AS s1",
        "sum(age) / count(age) AS m",
        "count(DISTINCT city) AS cd",
        "sum(DISTINCT age) AS sd, count(*) AS c",
        "sum(age * 2) AS s2",
        "sum(age) AS s, avg(id) AS a, count(city) AS c",
        "max(age) - min(age) AS spread",
        "count(*) * 2 AS c2",
        "1 + count(*) AS c1",
    ];
    let user_groups: Vec<(&str, &str)> = vec![
        ("", ""),
        ("city, ", " GROUP BY city"),
        ("age AS a, ", " GROUP BY age"),
        ("", " GROUP BY city"),
        ("age > 18 AS old, ", " GROUP BY age > 18"),
        ("city, age, ", " GROUP BY city, age"),
        ("city AS c, ", " GROUP BY c"),
    ];
    let havings: Vec<&str> = vec!["", " HAVING count(*) > 1", " HAVING sum(age) >= 38"];
    for (i, agg) in user_aggs.iter().enumerate() {
        for (j, (pre, grp)) in user_groups.iter().enumerate() {
            for (k, h) in havings.iter().enumerate() {
                if !thorough && !((i + j + k) % 4 == 0 || (j <= 1 && k == 0)) {
                    continue;
                }
                if grp.is_empty() && !h.is_empty() {
                    continue;
                }
                for w in ["", " WHERE age > 18"] {
                    if !thorough && !w.is_empty() && (i + j) % 3 != 0 {
                        continue;
                    }
                    out.push(q(format!("SELECT {pre}{agg} FROM users{w}{grp}{h}"), &["users"], &["aggregate", if grp.is_empty() { "ungrouped" } else { "grouped" }]));
                }
            }
        }
    }
    let order_aggs: Vec<&str> = vec![
        "count(*) AS c, count(amount) AS ca",
        "sum(amount) AS s",
        "avg(amount) AS a",
        "min(amount) AS lo, max(amount) AS hi",
        "count(DISTINCT amount) AS cd",
        "sum(coalesce(amount, 0)) AS s0",
        "sum(amount) + count(*) AS mix",
    ];
    for (i, agg) in order_aggs.iter().enumerate() {
        for (pre, grp) in [("", ""), ("user_id, ", " GROUP BY user_id"), ("amount IS NULL AS n, ", " GROUP BY amount IS NULL")] {
            for w in ["", " WHERE amount > 5", " WHERE amount IS NULL"] {
                if !thorough && !w.is_empty() && i % 2 == 1 {
                    continue;
                }
                out.push(q(format!("SELECT {pre}{agg} FROM orders{w}{grp}"), &["orders"], &["aggregate", "nullable"]));
            }
        }
    }

    // ---- F4: DISTINCT ------------------------------------------------------------------------
    for items in ["city", "age", "age, city", "age + 1 AS a", "city, age > 18 AS b"] {
        out.push(q(format!("SELECT DISTINCT {items} FROM users"), &["users"], &["distinct"]));
        if thorough {
            out.push(q(format!("SELECT DISTINCT {items} FROM users WHERE id < 3"), &["users"], &["distinct", "filter"]));
        }
    }
    out.push(q("SELECT DISTINCT amount FROM orders".into(), &["orders"], &["distinct", "nullable"]));
    out.push(q("SELECT DISTINCT user_id, amount FROM orders".into(), &["orders"], &["distinct", "nullable"]));

    // ---- F5: ORDER BY / LIMIT / OFFSET -------------------------------------------------------
    let orderings: Vec<(&str, &str, Order)> = vec![
        ("id, age", "id", Order::Total),
        ("id, age", "id DESC", Order::Total),
        ("id, age, city", "age DESC, id", Order::Total),
        ("id, age, city", "city, age, id DESC", Order::Total),
        ("age, city", "age", Order::Partial),
        ("id AS i, age + 1 AS a", "a, i", Order::Total),
        ("id, age * 2 AS d", "d DESC, id", Order::Total),
        ("id", "age DESC, id", Order::Total),
        ("city, id", "2, 1", Order::Total),
        ("id, age", "age + id", Order::Partial),
    ];
    for (items, ob, ord) in &orderings {
        for (lim, tag) in [("", "nolimit"), (" LIMIT 2", "limit"), (" LIMIT 1 OFFSET 1", "offset"), (" LIMIT 2 OFFSET 1", "offset-window2"), (" LIMIT 0", "limit0"), (" OFFSET 2", "offsetonly"), (" LIMIT 5 OFFSET 4", "offsetbig")] {
            if !thorough && !matches!(tag, "nolimit" | "limit" | "offset" | "limit0" | "offset-window2") {
                continue;
            }
            if tag == "offset-window2" && *ob == "age DESC, id" {
                continue; // ORDER BY a column that is not selected: a known finding of C08 for every window already
            }
            let mut g = q(format!("SELECT {items} FROM users ORDER BY {ob}{lim}"), &["users"], &["orderby", tag]);
            g.order = ord.clone();
            g.limit = !lim.is_empty();
            out.push(g);
        }
    }
    for (sql, ord) in [
        ("SELECT city, count(*) AS c FROM users GROUP BY city ORDER BY city", Order::Total),
        ("SELECT city, sum(age) AS s FROM users GROUP BY city ORDER BY s DESC, city", Order::Total),
        ("SELECT city, sum(age) AS s FROM users GROUP BY city ORDER BY sum(age) DESC, city", Order::Total),
        ("SELECT id, amount FROM orders ORDER BY amount, id", Order::Total),
        ("SELECT id, amount FROM orders ORDER BY amount DESC, id LIMIT 2", Order::Total),
        ("SELECT DISTINCT city FROM users ORDER BY city DESC", Order::Total),
        ("SELECT age FROM users WHERE id > 1 ORDER BY age LIMIT 1", Order::Partial),
    ] {
        let t: &[&'static str] = if sql.contains("orders") { &["orders"] } else { &["users"] };
        let mut g = q(sql.to_string(), t, &["orderby", "mixed"]);
        g.order = ord;
        g.limit = sql.contains("LIMIT");
        out.push(g);
    }
    let mut g = q("SELECT age FROM users LIMIT 2".into(), &["users"], &["limit", "unordered"]);
    g.limit = true;
    out.push(g);
    let mut g = q("SELECT id, city FROM users LIMIT 1 OFFSET 1".into(), &["users"], &["limit", "unordered"]);
    g.limit = true;
    out.push(g);

    // ---- F6: joins ---------------------------------------------------------------------------
    let join_kinds: Vec<(&str, &str)> = vec![("JOIN", "inner"), ("INNER JOIN", "inner"), ("LEFT JOIN", "left"), ("LEFT OUTER JOIN", "left"), ("RIGHT JOIN", "right"), ("FULL JOIN", "full"), ("FULL OUTER JOIN", "full")];
    let join_selects: Vec<&str> = vec![
        "u.id, o.amount",
        "u.id AS uid, o.id AS oid, o.amount",
        "u.city, o.user_id",
        "u.age + coalesce(o.amount, 0) AS t",
        "count(*) AS c",
        "u.city, sum(o.amount) AS s",
        "u.id, u.age, u.city, o.id AS oid, o.user_id, o.amount",
    ];
    let join_on: Vec<&str> = vec!["u.id = o.user_id", "u.id = o.user_id AND o.amount > 5", "u.id = o.id", "u.id < o.user_id", "o.user_id = u.id"];
    for (ki, (kw, kind)) in join_kinds.iter().enumerate() {
        for (si, sel) in join_selects.iter().enumerate() {
            for (oi, on) in join_on.iter().enumerate() {
                if !thorough && !((ki + si + oi) % 4 == 0 || (oi == 0 && si <= 1 && ki % 2 == 0)) {
                    continue;
                }
                let grp = if sel.starts_with("u.city, sum") { " GROUP BY u.city" } else { "" };
                out.push(q(format!("SELECT {sel} FROM users u {kw} orders o ON {on}{grp}"), &["users", "orders"], &["join", kind, "on"]));
                if thorough && si == 0 {
                    out.push(q(format!("SELECT {sel} FROM users AS u {kw} orders AS o ON {on} WHERE u.age > 18"), &["users", "orders"], &["join", kind, "on", "filter"]));
                }
            }
        }
    }
    // unaliased tables with qualified names
    out.push(q("SELECT users.id, orders.amount FROM users JOIN orders ON users.id = orders.user_id".into(), &["users", "orders"], &["join", "inner", "qualified"]));
    out.push(q("SELECT users.city, orders.id AS oid FROM users LEFT JOIN orders ON users.id = orders.user_id".into(), &["users", "orders"], &["join", "left", "qualified"]));
    // CROSS
    out.push(q("SELECT u.id, o.id AS oid FROM users u CROSS JOIN orders o".into(), &["users", "orders"], &["join", "cross"]));
    out.push(q("SELECT u.id, r.zone FROM users u CROSS JOIN ref r WHERE r.zone = 1".into(), &["users", "ref"], &["join", "cross", "filter"]));
    // USING / NATURAL
    for (kw, kind) in [("JOIN", "inner"), ("LEFT JOIN", "left"), ("RIGHT JOIN", "right"), ("FULL JOIN", "full")] {
        out.push(q(format!("SELECT id, age, amount FROM users {kw} orders USING (id)"), &["users", "orders"], &["join", kind, "using"]));
        out.push(q(format!("SELECT city, age, zone FROM users {kw} ref USING (city)"), &["users", "ref"], &["join", kind, "using"]));
        out.push(q(format!("SELECT * FROM users {kw} ref USING (city)"), &["users", "ref"], &["join", kind, "using", "star"]));
        out.push(q(format!("SELECT city, zone, age FROM users NATURAL {kw} ref"), &["users", "ref"], &["join", kind, "natural"]));
        if thorough {
            out.push(q(format!("SELECT u.age, r.zone FROM users u {kw} ref r ON u.city = r.city"), &["users", "ref"], &["join", kind, "on", "unique-key"]));
            out.push(q(format!("SELECT count(*) AS c FROM users {kw} ref USING (city)"), &["users", "ref"], &["join", kind, "using", "aggregate"]));
        }
    }
    // NATURAL / USING over several shared columns (the order in which the shared columns are paired must not matter
    // and must not vary from one compilation to the next)
    for (kw, kind) in [("JOIN", "inner"), ("LEFT JOIN", "left"), ("FULL JOIN", "full")] {
        out.push(q(format!("SELECT id, age, city FROM (SELECT id, age FROM users) AS a NATURAL {kw} (SELECT id, age, city FROM users WHERE age > 18) AS b"), &["users"], &["join", kind, "natural", "two-shared-columns"]));
        out.push(q(format!("SELECT id, age, city FROM users NATURAL {kw} (SELECT id, age, city FROM users WHERE id > 1) AS b"), &["users"], &["join", kind, "natural", "three-shared-columns"]));
        out.push(q(format!("SELECT id, user_id, amount FROM orders NATURAL {kw} (SELECT id, user_id FROM orders WHERE amount > 5) AS b"), &["orders"], &["join", kind, "natural", "two-shared-columns"]));
        out.push(q(format!("SELECT id, city, age FROM users {kw} (SELECT id, city FROM users WHERE age > 18) AS b USING (id, city)"), &["users"], &["join", kind, "using", "two-shared-columns"]));
        out.push(q(format!("SELECT * FROM users NATURAL {kw} (SELECT id, age FROM users) AS b"), &["users"], &["join", kind, "natural", "two-shared-columns", "star"]));
    }
    // chains of two joins
    for (k1, k2) in [("JOIN", "JOIN"), ("LEFT JOIN", "JOIN"), ("JOIN", "LEFT JOIN"), ("LEFT JOIN", "LEFT JOIN"), ("FULL JOIN", "LEFT JOIN")] {
        out.push(q(
            format!("SELECT u.id, o.amount, r.zone FROM users u {k1} orders o ON u.id = o.user_id {k2} ref r ON u.city = r.city"),
            &["users", "orders", "ref"],
            &["join", "chain"],
        ));
    }
    out.push(q("SELECT o.id, i.price FROM orders o JOIN items i ON o.id = i.order_id".into(), &["orders", "items"], &["join", "inner", "on"]));
    out.push(q("SELECT o.id, sum(i.price * i.qty) AS total FROM orders o LEFT JOIN items i ON o.id = i.order_id GROUP BY o.id".into(), &["orders", "items"], &["join", "left", "aggregate"]));

    // ---- F7: derived tables and CTEs -----------------------------------------------------------
    for sql in [
        "SELECT t.a FROM (SELECT age AS a FROM users) AS t",
        "SELECT a + 1 AS b FROM (SELECT age AS a FROM users WHERE id > 1) AS t WHERE a > 18",
        "SELECT t.city, t.c FROM (SELECT city, count(*) AS c FROM users GROUP BY city) AS t WHERE t.c > 1",
        "SELECT sum(c) AS total FROM (SELECT city, count(*) AS c FROM users GROUP BY city) AS t",
        "SELECT avg(s) AS m FROM (SELECT city, sum(age) AS s FROM users GROUP BY city) AS t",
        "WITH c AS (SELECT id, age FROM users WHERE age > 18) SELECT id FROM c",
        "WITH c AS (SELECT city, count(*) AS n FROM users GROUP BY city) SELECT city, n * 2 AS n2 FROM c",
        "WITH a AS (SELECT id FROM users), b AS (SELECT id FROM a WHERE id > 1) SELECT id FROM b",
        "WITH users AS (SELECT id + 10 AS id FROM users) SELECT id FROM users",
        "WITH c AS (SELECT age FROM users) SELECT count(*) AS n FROM c",
        "SELECT x.id FROM (SELECT id FROM users ORDER BY id LIMIT 2) AS x",
        "SELECT t.a FROM (SELECT DISTINCT age AS a FROM users) AS t",
    ] {
        out.push(q(sql.to_string(), &["users"], &["derived"]));
    }
    // name scoping: the same CTE name declared at two nesting levels (derived table / CTE body /
    // siblings), read at the inner level, the outer level or both; the definitions differ on the data
    {
        let outer = "SELECT id, age FROM users WHERE age > 18";
        let inner = "SELECT id + 10 AS id, age FROM users WHERE age <= 18";
        for (oname, iname) in [("v", "v"), ("v", "w"), ("users", "v"), ("v", "users"), ("users", "users")] {
            // inner level inside a derived table
            out.push(q(format!("WITH {oname} AS ({outer}) SELECT id FROM (WITH {iname} AS ({inner}) SELECT id FROM {iname}) AS s"), &["users"], &["derived", "scoping"]));
            out.push(q(format!("WITH {oname} AS ({outer}) SELECT s.id, {oname}.age FROM {oname} JOIN (WITH {iname} AS ({inner}) SELECT id - 10 AS id FROM {iname}) AS s ON {oname}.id <> s.id"), &["users"], &["derived", "scoping", "join"]));
            // inner level inside a CTE body
            out.push(q(format!("WITH {oname} AS ({outer}), z AS (WITH {iname} AS ({inner}) SELECT id FROM {iname}) SELECT id FROM z"), &["users"], &["derived", "scoping"]));
            // the inner declaration must not leak to the enclosing level
            out.push(q(format!("WITH {oname} AS ({outer}) SELECT s.id AS a, o.id AS b FROM (WITH {iname} AS ({inner}) SELECT id FROM {iname}) AS s CROSS JOIN {oname} AS o"), &["users"], &["derived", "scoping", "join"]));
        }
        // siblings declaring the same name
        out.push(q(format!("SELECT a.id AS x, b.id AS y FROM (WITH v AS ({outer}) SELECT id FROM v) AS a CROSS JOIN (WITH v AS ({inner}) SELECT id FROM v) AS b"), &["users"], &["derived", "scoping", "join"]));
        // three levels
        out.push(q(format!("WITH v AS ({outer}) SELECT id FROM (WITH v AS ({inner}) SELECT id FROM (WITH v AS (SELECT id + 100 AS id FROM users) SELECT id FROM v) AS t) AS s"), &["users"], &["derived", "scoping"]));
        out.push(q(format!("WITH v AS ({outer}) SELECT id FROM (WITH w AS ({inner}) SELECT id FROM (WITH x AS (SELECT id + 100 AS id FROM users) SELECT id FROM v) AS t) AS s"), &["users"], &["derived", "scoping"]));
        // a CTE referring to an earlier one of the enclosing level while redefining it below
        out.push(q(format!("WITH v AS ({outer}), w AS (SELECT id FROM v) SELECT id FROM (WITH v AS ({inner}) SELECT w.id FROM w JOIN v ON w.id <> v.id) AS s"), &["users"], &["derived", "scoping", "join"]));
    }
    out.push(q("WITH c AS (SELECT user_id, sum(amount) AS s FROM orders GROUP BY user_id) SELECT u.id, c.s FROM users u LEFT JOIN c ON u.id = c.user_id".into(), &["users", "orders"], &["derived", "join", "left"]));
    out.push(q("SELECT u.id, t.s FROM users u JOIN (SELECT user_id, sum(amount) AS s FROM orders GROUP BY user_id) AS t ON u.id = t.user_id".into(), &["users", "orders"], &["derived", "join", "inner"]));

    // ---- F9: functions applied to unique columns (constraint propagation) -------------------
    for f in [
        "-k AS x", "exp(k) AS x", "ln(k) AS x", "sqrt(k) AS x", "CAST(k AS INTEGER) AS x", "CAST(k AS TEXT) AS x", "CAST(k AS FLOAT) AS x", "md5(CAST(k AS TEXT)) AS x",
        "k AS x", "k + 1 AS x", "abs(v) AS x", "-v AS x", "v * v AS x", "CAST(v AS FLOAT) AS x", "floor(k) AS x", "k, v", "v AS x, k AS y", "CAST(v AS TEXT) AS x",
        "exp(v) AS x", "log(k) AS x",
    ] {
        out.push(q(format!("SELECT {f} FROM m"), &["m"], &["unique-propagation"]));
    }
    // a nullable unique column: functions that map NULL to a value (COALESCE, CASE .. IS NULL) are not injective on it
    for f in [
        "u AS x", "-u AS x", "coalesce(u, 1) AS x", "coalesce(u, w) AS x", "-coalesce(u, 2) AS x", "coalesce(u, 0) AS x, w", "coalesce(-u, -1) AS x",
        "CASE WHEN u IS NULL THEN 1 ELSE u END AS x", "u + 1 AS x", "coalesce(u + 1, 2) AS x", "u, w",
    ] {
        out.push(q(format!("SELECT {f} FROM nu"), &["nu"], &["unique-propagation", "nullable-unique"]));
    }
    out.push(q("SELECT v, count(*) AS c FROM m GROUP BY v".into(), &["m"], &["unique-propagation", "grouped"]));
    out.push(q("SELECT CAST(k AS INTEGER) AS ki, count(*) AS c FROM m GROUP BY CAST(k AS INTEGER)".into(), &["m"], &["unique-propagation", "grouped"]));
    out.push(q("SELECT a.k, b.v FROM m a JOIN m b ON a.v = b.v".into(), &["m"], &["unique-propagation", "join"]));
    out.push(q("SELECT a.k, b.v FROM m a JOIN m b ON a.v = -b.v".into(), &["m"], &["unique-propagation", "join"]));
    out.push(q("SELECT a.k AS ak, b.k AS bk FROM m a CROSS JOIN m b".into(), &["m"], &["unique-propagation", "join"]));
    out.push(q("SELECT u.id, r.city FROM users u JOIN ref r ON u.city = r.city".into(), &["users", "ref"], &["unique-propagation", "join"]));
    out.push(q("SELECT u.id, r.city, r.zone FROM users u LEFT JOIN ref r ON u.city = r.city".into(), &["users", "ref"], &["unique-propagation", "join"]));
    out.push(q("SELECT r.city, u.id FROM ref r LEFT JOIN users u ON u.city = r.city".into(), &["users", "ref"], &["unique-propagation", "join"]));
    out.push(q("SELECT o.id, u.id AS uid FROM orders o JOIN users u ON o.user_id = u.id".into(), &["users", "orders"], &["unique-propagation", "join"]));
    out.push(q("SELECT o.id, u.id AS uid FROM orders o FULL JOIN users u ON o.user_id = u.id".into(), &["users", "orders"], &["unique-propagation", "join"]));
    // ON clauses combining equalities on unique columns with AND / OR, both operand orders, all kinds
    for kw in ["JOIN", "LEFT JOIN", "RIGHT JOIN", "FULL JOIN"] {
        for on in ["m.v = o.user_id OR m.k = o.amount", "m.v = o.user_id AND m.k = o.amount", "o.user_id = m.v OR o.amount = m.k", "m.v = o.user_id OR m.v = o.id", "m.v = o.id AND m.k = o.amount", "m.v = o.id OR m.k = o.amount"] {
            out.push(q(format!("SELECT o.id, o.user_id, m.k, m.v FROM m {kw} orders o ON {on}"), &["m", "orders"], &["unique-propagation", "join", "on-bool"]));
            if thorough {
                out.push(q(format!("SELECT o.id, m.k FROM orders o {kw} m ON {on}"), &["m", "orders"], &["unique-propagation", "join", "on-bool"]));
            }
        }
    }
    // two unique columns on one side: a row of the other side can match once through each
    for kw in ["JOIN", "LEFT JOIN", "RIGHT JOIN", "FULL JOIN"] {
        for on in [
            "p.a = q.x OR p.b = q.y",
            "p.a = q.x AND p.b = q.y",
            "q.x = p.a OR q.y = p.b",
            "p.a = q.x OR p.a = q.y",
            "p.a = q.k OR p.b = q.x",
            "p.a = q.k AND (p.b = q.x OR p.b = q.y)",
            "NOT (p.a = q.k)",
            "p.a = q.k OR p.b > q.x",
        ] {
            out.push(q(format!("SELECT q.k, q.x, p.a, p.b FROM p {kw} q ON {on}"), &["p", "q"], &["unique-propagation", "join", "on-bool"]));
            if thorough || kw == "JOIN" {
                out.push(q(format!("SELECT q.k, p.a FROM q {kw} p ON {on}"), &["p", "q"], &["unique-propagation", "join", "on-bool"]));
            }
        }
    }
    out.push(q("SELECT id FROM users UNION ALL SELECT id FROM orders".into(), &["users", "orders"], &["unique-propagation", "setop"]));
    out.push(q("SELECT id FROM users UNION ALL SELECT id FROM users".into(), &["users"], &["unique-propagation", "setop"]));

    // ---- F8: set operations ----------------------------------------------------------------------
    for (op, tag) in [("UNION", "union"), ("UNION ALL", "unionall"), ("INTERSECT", "intersect"), ("EXCEPT", "except")] {
        out.push(q(format!("SELECT id FROM users {op} SELECT user_id FROM orders"), &["users", "orders"], &["setop", tag]));
        out.push(q(format!("SELECT id FROM users WHERE age > 18 {op} SELECT id FROM users WHERE city = 'A'"), &["users"], &["setop", tag]));
        out.push(q(format!("SELECT city FROM users {op} SELECT city FROM ref"), &["users", "ref"], &["setop", tag]));
        // an arm that reads a derived table
        out.push(q(format!("SELECT id FROM users {op} SELECT id FROM (SELECT id FROM orders WHERE id > 1) AS t"), &["users", "orders"], &["setop", tag, "derived-arm"]));
        if thorough {
            out.push(q(format!("SELECT id, age FROM users WHERE id < 3 {op} SELECT id, age FROM users WHERE id > 1"), &["users"], &["setop", tag]));
            out.push(q(format!("SELECT age AS x FROM users {op} SELECT id AS x FROM users"), &["users"], &["setop", tag]));
        }
    }
    out
}

/// E-func: every scalar function the SQL front-end names, applied to columns of several kinds and, for the binary
/// ones, to a grid of constants; `positions`: 1 = in the select list only, 3 = also inside WHERE and inside an aggregate
/// `safe`: only the applications that are defined for every argument in PostgreSQL and SQLite alike (no division by a
/// possibly-zero value, no logarithm / root / fractional power of a possibly non-positive value ...): SQLite answers
/// NULL where PostgreSQL raises an error, so the others can be compiled (C18) but not compared by execution
pub fn function_sweep(positions: usize, safe: bool) -> Vec<GenQuery> {
    let mut out = vec![];
    let unary_num = ["exp", "ln", "log", "log2", "log10", "abs", "sin", "cos", "tan", "sqrt", "square", "sign", "degrees", "round", "trunc", "-", "ceil", "floor"];
    let unary_txt = ["md5", "lower", "upper", "char_length", "ltrim", "rtrim", "btrim"];
    let binary_num = ["pow", "power", "round", "trunc", "greatest", "least", "log", "coalesce", "+", "-", "*", "/", "%"];
    let consts = ["0", "0.5", "2", "-1", "1.5", "3"];
    // (table, numeric arguments, text arguments)
    let subjects: [(&'static str, &[&str], &[&str]); 2] = [("users", &["age", "id", "age - 19", "id - 2.5"], &["city"]), ("orders", &["amount", "amount - 5", "user_id"], &[])];
    let mut exprs: Vec<(&'static str, String)> = vec![];
    for (t, nums, txts) in subjects.iter() {
        for a in nums.iter() {
            for f in unary_num {
                exprs.push((*t, if f == "-" { format!("-({a})") } else { format!("{f}({a})") }));
            }
            for f in binary_num {
                for c in consts {
                    match f {
                        "+" | "-" | "*" | "/" | "%" => {
                            exprs.push((*t, format!("({a}) {f} {c}")));
                            exprs.push((*t, format!("{c} {f} ({a})")));
                        }
                        _ => {
                            exprs.push((*t, format!("{f}({a}, {c})")));
                            if matches!(f, "pow" | "power" | "greatest" | "least" | "log") {
                                exprs.push((*t, format!("{f}({c}, {a})")));
                            }
                        }
                    }
                }
            }
        }
        for a in txts.iter() {
            for f in unary_txt {
                exprs.push((*t, format!("{f}({a})")));
            }
            exprs.push((*t, format!("substr({a}, 1, 1)")));
            exprs.push((*t, format!("concat({a}, 'x')")));
            exprs.push((*t, format!("coalesce({a}, 'z')")));
        }
    }
    let is_safe = |e: &str| -> bool {
        let f = e.split('(').next().unwrap_or("");
        match f {
            "ltrim" | "rtrim" | "btrim" | "exp" | "abs" | "sin" | "cos" | "square" | "sign" | "degrees" | "round" | "trunc" | "ceil" | "floor" | "-" | "greatest" | "least" | "coalesce" | "lower" | "upper" | "char_length" | "md5" => !e.contains(", -1)") || f != "round" && f != "trunc",
            "pow" | "power" => e.ends_with(", 2)") || e.ends_with(", 3)") || e.ends_with(", 0)"),
            "" => {
                // infix: (a) op c  or  c op (a)
                (e.contains(") + ") || e.contains(") - ") || e.contains(") * ") || e.contains(" + (") || e.contains(" - (") || e.contains(" * (")) || (e.contains(") / ") && !e.ends_with("/ 0"))
            }
            _ => false,
        }
    };
    for (t, e) in exprs {
        if safe && !is_safe(&e) {
            continue;
        }
        let mut g = q(format!("SELECT {e} AS x FROM {t}"), if t == "users" { &["users"] } else { &["orders"] }, &["function-sweep", "projection"]);
        g.max_total_rows = 2;
        out.push(g);
        if positions >= 3 {
            let text_valued = e.starts_with("md5") || e.starts_with("lower") || e.starts_with("upper") || e.starts_with("ltrim") || e.starts_with("rtrim") || e.starts_with("btrim") || e.starts_with("substr") || e.starts_with("concat") || e.starts_with("coalesce(city");
            if !text_valued {
                let mut g = q(format!("SELECT id FROM {t} WHERE {e} > 1"), if t == "users" { &["users"] } else { &["orders"] }, &["function-sweep", "filter"]);
                g.max_total_rows = 2;
                out.push(g);
                let mut g = q(format!("SELECT sum({e}) AS s, count(*) AS c FROM {t}"), if t == "users" { &["users"] } else { &["orders"] }, &["function-sweep", "aggregate", "ungrouped"]);
                g.max_total_rows = 2;
                out.push(g);
            }
        }
    }
    out
}

/// the composed queries of sqlgen2 (every constructor term of nesting depth <= depth)
pub fn composed(depth: usize) -> Vec<GenQuery> {
    crate::sqlgen2::compose(depth).iter().map(crate::sqlgen2::to_gen).collect()
}

/// hand-written E-sql list followed by the composed terms (quick: depth 1, thorough: depth 3)
pub fn queries_plus(tier: Tier) -> Vec<GenQuery> {
    queries_plus_depth(tier, tier.pick(2, 3))
}

/// hand-written E-sql list followed by the composed terms of nesting depth <= depth
pub fn queries_plus_depth(tier: Tier, depth: usize) -> Vec<GenQuery> {
    let mut v = queries(tier);
    let mut seen: std::collections::BTreeSet<String> = v.iter().map(|g| g.sql.clone()).collect();
    let mut terms = composed(depth);
    if tier == Tier::Quick && depth == 2 {
        // quick: plus the depth-3 joins of a set operation (key + column rows) with a base table, on <= 3 rows
        terms.extend(composed(3).into_iter().filter(|g| g.term.as_ref().map_or(false, |t| t.starts_with("J.inner.eq.s2(S."))).map(|mut g| {
            g.max_total_rows = 3;
            g.tags.push("quick-depth-3");
            g
        }));
    }
    for g in function_sweep(tier.pick(1, 3), true) {
        if seen.insert(g.sql.clone()) {
            v.push(g);
        }
    }
    for mut g in terms {
        if seen.insert(g.sql.clone()) {
            // quick: nested terms on the instances with <= 2 rows in total
            if tier == Tier::Quick && !g.subqueries.is_empty() && !g.tags.contains(&"quick-depth-3") {
                g.max_total_rows = 2;
            }
            // thorough: nested terms on the instances with <= 3 rows in total (depth-1 terms: as the hand-written list)
            if tier == Tier::Thorough && !g.subqueries.is_empty() {
                g.max_total_rows = 3;
            }
            v.push(g);
        }
    }
    v
}
