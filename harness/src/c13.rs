//! C13 — the rewriting search is complete, well-typed and picks a best-scoring derivation.
//! For every E-sql relation tree x protected/public/synthetic assignment x strategy x entry point the
//! real search (observed through hook H2) is compared with an exhaustive reference enumeration of the
//! consistent derivations over the rule lists the real setter attached.
use crate::common::*;
use crate::sqlgen::queries;
use crate::world::World;
use qrlew::builder::With;
use qrlew::differential_privacy::DpParameters;
use qrlew::expr::Identifier;
use qrlew::hierarchy::Hierarchy;
use qrlew::privacy_unit_tracking::{PrivacyUnit, Strategy};
use qrlew::relation::{Relation, Variant as _};
use qrlew::rewriting::rewriting_rule::{Property, RewritingRulesSetter};
use qrlew::rewriting::{Error as RwError, RelationWithRewritingRules};
use qrlew::sql::parse;
use qrlew::synthetic_data::SyntheticData;
use qrlew::verif::{take_events, Event};
use serde_json::json;
use std::collections::{BTreeMap, BTreeSet};
use std::sync::Arc;

/// one node of the rule tree, copied out of the library's structure
struct Node {
    name: String,
    /// (inputs, output) of every rule the setter attached, as display strings
    rules: Vec<(Vec<String>, String)>,
    children: Vec<Node>,
}

fn copy_tree(r: &RelationWithRewritingRules) -> Node {
    Node {
        name: r.relation().name().to_string(),
        rules: r.attributes().iter().map(|rr| (rr.inputs().iter().map(|p| p.to_string()).collect(), rr.output().to_string())).collect(),
        children: r.inputs().iter().map(|c| copy_tree(c)).collect(),
    }
}

fn count_nodes(n: &Node) -> usize {
    1 + n.children.iter().map(count_nodes).sum::<usize>()
}

fn rule_str(inputs: &[String], output: &str) -> String {
    match inputs.len() {
        0 => output.to_string(),
        _ => format!("{} → {}", inputs.join(", "), output),
    }
}

/// all consistent derivations of a subtree, by output label: label -> list of derivation strings
/// (the same format as the hook's `describe`)
fn derivations(n: &Node, cap: usize) -> BTreeMap<String, Vec<String>> {
    let child: Vec<BTreeMap<String, Vec<String>>> = n.children.iter().map(|c| derivations(c, cap)).collect();
    let mut out: BTreeMap<String, Vec<String>> = BTreeMap::new();
    let mut seen_rules = BTreeSet::new();
    for (inputs, output) in &n.rules {
        // two rules with the same labels but different parameters give the same derivation string
        if !seen_rules.insert((inputs.clone(), output.clone())) {
            continue;
        }
        if inputs.len() != child.len() {
            continue;
        }
        let mut combos: Vec<Vec<String>> = vec![vec![]];
        let mut ok = true;
        for (i, lab) in inputs.iter().enumerate() {
            match child[i].get(lab) {
                Some(ds) => {
                    let mut next = vec![];
                    for c in &combos {
                        for d in ds {
                            if next.len() > cap {
                                break;
                            }
                            let mut c2 = c.clone();
                            c2.push(d.clone());
                            next.push(c2);
                        }
                    }
                    combos = next;
                }
                None => {
                    ok = false;
                    break;
                }
            }
        }
        if !ok {
            continue;
        }
        let e = out.entry(output.clone()).or_default();
        for c in combos {
            e.push(format!("{}[{}]({})", n.name, rule_str(inputs, output), c.join(",")));
        }
    }
    out
}

/// number of consistent derivations by output label, without materialising them (memoised variant)
fn counts(n: &Node) -> BTreeMap<String, u128> {
    let child: Vec<BTreeMap<String, u128>> = n.children.iter().map(counts).collect();
    let mut out: BTreeMap<String, u128> = BTreeMap::new();
    let mut seen_rules = BTreeSet::new();
    for (inputs, output) in &n.rules {
        if !seen_rules.insert((inputs.clone(), output.clone())) || inputs.len() != child.len() {
            continue;
        }
        let mut k: u128 = 1;
        for (i, lab) in inputs.iter().enumerate() {
            k = k.saturating_mul(*child[i].get(lab).unwrap_or(&0));
        }
        if k > 0 {
            *out.entry(output.clone()).or_default() += k;
        }
    }
    out
}

/// parse `name[rule](children)` and check every node's rule takes its children's outputs
fn parse_check(s: &str) -> Result<String, String> {
    // returns the output label of the root
    fn split_top(s: &str) -> Vec<&str> {
        let mut out = vec![];
        let mut depth = 0i32;
        let mut start = 0;
        for (i, c) in s.char_indices() {
            match c {
                '(' | '[' => depth += 1,
                ')' | ']' => depth -= 1,
                ',' if depth == 0 => {
                    out.push(&s[start..i]);
                    start = i + 1;
                }
                _ => {}
            }
        }
        if start < s.len() {
            out.push(&s[start..]);
        }
        out
    }
    let lb = s.find('[').ok_or("no [")?;
    let rb = s[lb..].find(']').ok_or("no ]")? + lb;
    let rule = &s[lb + 1..rb];
    let rest = &s[rb + 1..];
    if !rest.starts_with('(') || !rest.ends_with(')') {
        return Err(format!("bad children in {s}"));
    }
    let inner = &rest[1..rest.len() - 1];
    let kids = split_top(inner);
    let (inputs, output): (Vec<String>, String) = match rule.split_once(" → ") {
        Some((i, o)) => (i.split(", ").map(|x| x.to_string()).collect(), o.to_string()),
        None => (vec![], rule.to_string()),
    };
    if inputs.len() != kids.len() {
        return Err(format!("node {} takes {} inputs but has {} children", &s[..lb], inputs.len(), kids.len()));
    }
    for (i, k) in kids.iter().enumerate() {
        let o = parse_check(k)?;
        if o != inputs[i] {
            return Err(format!("node {} expects input {} = {} but the child produces {}", &s[..lb], i, inputs[i], o));
        }
    }
    Ok(output)
}

/// The score of a derivation, recomputed from its printed form with the weights of the property's scoring (a node
/// labelled Public 10, DP 5, PUP 2, Published 1, SD 1, Private 0), every occurrence of a node in the printed TREE
/// counted (a sub-query read twice counts twice, as the library's own fold over `inputs()` does)
fn ref_score(deriv: &str) -> f64 {
    let mut total = 0.0;
    let mut rest = deriv;
    while let Some(lb) = rest.find('[') {
        let rb = match rest[lb..].find(']') {
            Some(i) => lb + i,
            None => break,
        };
        let rule = &rest[lb + 1..rb];
        let output = rule.rsplit(" → ").next().unwrap_or(rule).trim();
        total += match output {
            "Pub" => 10.0,
            "DP" => 5.0,
            "PUP" => 2.0,
            "Pubd" => 1.0,
            "SD" => 1.0,
            _ => 0.0,
        };
        rest = &rest[rb + 1..];
    }
    total
}

fn pu_variants() -> Vec<(&'static str, PrivacyUnit)> {
    vec![
        ("all-protected", crate::c18::privacy_unit()),
        ("users-only", PrivacyUnit::from((vec![("users", vec![], "id")], false))),
        ("orders-via-fk", PrivacyUnit::from((vec![("users", vec![], "id"), ("orders", vec![("user_id", "users", "id")], "id")], false))),
        ("nothing-protected", PrivacyUnit::from((Vec::<(&str, Vec<(&str, &str, &str)>, &str)>::new(), false))),
    ]
}

fn synthetic(on: bool) -> Option<SyntheticData> {
    if !on {
        return None;
    }
    Some(SyntheticData::new(Hierarchy::from([
        (vec!["users"], Identifier::from("users_sd")),
        (vec!["orders"], Identifier::from("orders_sd")),
        (vec!["items"], Identifier::from("items_sd")),
        (vec!["m"], Identifier::from("m_sd")),
            (vec!["p"], Identifier::from("p_sd")),
            (vec!["q"], Identifier::from("q_sd")),
            (vec!["nu"], Identifier::from("nu_sd")),
            (vec!["ref"], Identifier::from("ref_sd")),
    ])))
}

pub fn run(ctx: &Ctx) -> Report {
    let level = "model_checking";
    let world = World::standard();
    let relations = world.relations();
    let mut subjects: Vec<(String, Arc<Relation>)> = vec![];
    let step = ctx.tier.pick(3, 1);
    let mut all = crate::sqlgen::queries_plus_depth(ctx.tier, ctx.tier.pick(1, 3));
    if ctx.tier == Tier::Quick {
        // plus the set operations whose arms reach their aggregation at different depths, and
        // plus the inner joins of a depth-2 join with a base table (either side): nested joins are where a
        // sub-tree has several derivations with the same output label and different scores
        all.extend(crate::sqlgen::composed(3).into_iter().filter(|g| g.term.as_ref().map_or(false, |t| t.starts_with("J.inner.eq.s1(") && t.contains("(J.") || t.starts_with("J.inner.eq.s1(") && t.contains(", J.") || t.starts_with("S.") && t.contains("P1c(") || t.starts_with("W[") && t.contains("c0:J."))));
    }
    // quick: every third hand-written query and every composed term of depth 1; thorough: everything (depth 3)
    for (i, g) in all.into_iter().enumerate() {
        if i % step != 0 && g.term.is_none() {
            continue;
        }
        if let Ok(Ok(rel)) = guarded(|| parse(&g.sql).map_err(|e| e.to_string()).and_then(|q| Relation::try_from(q.with(&relations)).map_err(|e| e.to_string()))) {
            subjects.push((g.sql.clone(), Arc::new(rel)));
        }
    }
    let mut settings: Vec<(String, PrivacyUnit, bool, &'static str, Strategy)> = vec![];
    for (pn, pu) in pu_variants() {
        for sd in [false, true] {
            settings.push((format!("pu={pn} sd={sd} entry=dp"), pu.clone(), sd, "dp", Strategy::Hard));
            for (sn, st) in [("hard", Strategy::Hard), ("soft", Strategy::Soft)] {
                settings.push((format!("pu={pn} sd={sd} entry=pup strategy={sn}"), pu.clone(), sd, "pup", st));
            }
        }
    }
    let mut head = Report::new(level);
    head.set("subjects", subjects.len() as u64);
    head.set("settings", settings.len() as u64);
    let relations = &relations;
    let settings = &settings;
    let work: Vec<(String, Arc<Relation>)> = subjects.into_iter().filter(|(s, _)| ctx.replay.is_none() || settings.iter().any(|st| ctx.wants(&format!("{} [{}]", s, st.0)))).collect();
    let body = par_reports_isolated(work, level, move |(sql, rel), r| {
        for (sname, pu, sd, entry, strategy) in settings.iter() {
            let case_id = format!("{} [{}]", sql, sname);
            r.evaluations += 1;
            let dp = DpParameters::from_epsilon_delta(1.0, 1e-3);
            // the rule lists the real setter attaches
            let tree = match guarded(|| {
                let with_rules = rel.set_rewriting_rules(RewritingRulesSetter::new(relations, synthetic(*sd), pu.clone(), dp.clone(), *strategy));
                copy_tree(&with_rules)
            }) {
                Ok(t) => t,
                Err(p) => {
                    r.reach("setter_panics(left to C18)", &p.site());
                    continue;
                }
            };
            let acceptable: &[&str] = if *entry == "dp" { &["Pub", "Pubd", "DP", "SD"] } else { &["Pub", "PUP"] };
            let cnt = counts(&tree);
            let ref_count: u128 = acceptable.iter().map(|l| *cnt.get(*l).unwrap_or(&0)).sum();
            let nodes = count_nodes(&tree);
            r.add_count("states", nodes as u64);
            // brute-force list for small trees (cross-checked with the memoised counts)
            let list: Option<BTreeSet<String>> = if ref_count <= 4096 {
                let d = derivations(&tree, 100_000);
                let mut set = BTreeSet::new();
                let mut total = 0u128;
                for l in acceptable {
                    if let Some(v) = d.get(*l) {
                        total += v.len() as u128;
                        set.extend(v.iter().cloned());
                    }
                }
                if total != ref_count {
                    r.machinery_errors.push(format!("reference self-check failed for {case_id}: listed {total}, counted {ref_count}"));
                }
                Some(set)
            } else {
                None
            };
            // the real search
            let _ = take_events();
            let result = guarded(|| match *entry {
                "dp" => rel.rewrite_with_differential_privacy(relations, synthetic(*sd), pu.clone(), dp.clone()).map(|_| ()),
                _ => rel.rewrite_as_privacy_unit_preserving(relations, synthetic(*sd), pu.clone(), dp.clone(), Some(*strategy)).map(|_| ()),
            });
            let events = take_events();
            let cands: Vec<(&String, &String, f64)> = events.iter().filter_map(|e| if let Event::Candidate { derivation, output, score, .. } = e { Some((derivation, output, *score)) } else { None }).collect();
            r.add_count("transitions", cands.len() as u64 + 1);
            r.add_count("traces_validated_against_impl", 1);
            match &result {
                Ok(Ok(())) => {
                    r.reach("outcomes", "ok");
                    r.distinct_nontrivial += 1;
                    if ref_count == 0 {
                        r.violation(format!("accepted-without-consistent-derivation entry={entry}"), &case_id, json!({"query": sql, "setting": sname, "candidates": cands.len()}));
                        continue;
                    }
                    if ref_count > 1 {
                        r.reach("reach", ">=2-consistent-derivations");
                    }
                    // the selected derivation
                    let sel = events.iter().find_map(|e| if let Event::Selected { relation } = e { Some(*relation) } else { None });
                    let rewritten: Vec<(usize, f64)> = events.iter().filter_map(|e| if let Event::Rewritten { relation, score } = e { Some((*relation, *score)) } else { None }).collect();
                    // candidates are identified by the address of their rewritten relation; a losing candidate is dropped and its
                    // address can be reused by a later one, so the live (selected) one is the LAST event with that address
                    let k = sel.and_then(|s| rewritten.iter().rposition(|(p, _)| *p == s));
                    let (sel_deriv, _sel_out, sel_score) = match k.and_then(|k| cands.get(k)) {
                        Some(c) => *c,
                        None => {
                            r.machinery_errors.push(format!("hook H2: cannot identify the selected candidate for {case_id}"));
                            continue;
                        }
                    };
                    if r.samples.is_empty() && ref_count > 1 {
                        r.sample(json!({"query": sql, "setting": sname, "consistent_derivations_in_the_reference": ref_count.to_string(), "candidates_enumerated_by_the_search": cands.len(), "selected_derivation": sel_deriv, "selected_score": sel_score}));
                    }
                    // well-typed
                    match parse_check(sel_deriv) {
                        Ok(root) => {
                            if !acceptable.contains(&root.as_str()) {
                                r.violation(format!("selected-root-not-acceptable entry={entry} root={root}"), &case_id, json!({"query": sql, "setting": sname, "derivation": sel_deriv}));
                            }
                        }
                        Err(why) => {
                            r.violation(format!("selected-derivation-inconsistent entry={entry}"), &case_id, json!({"query": sql, "setting": sname, "derivation": sel_deriv, "why": why}));
                            continue;
                        }
                    }
                    // the search enumerated exactly the consistent derivations
                    if cands.len() as u128 != ref_count {
                        r.violation(
                            format!("search-incomplete entry={entry}"),
                            &case_id,
                            json!({"query": sql, "setting": sname, "candidates_enumerated_by_the_search": cands.len(), "consistent_derivations_in_the_reference": ref_count.to_string()}),
                        );
                    }
                    if let Some(set) = &list {
                        if !set.contains(sel_deriv) {
                            r.violation(format!("selected-derivation-not-in-reference entry={entry}"), &case_id, json!({"query": sql, "setting": sname, "derivation": sel_deriv}));
                        }
                        for (d, _, _) in &cands {
                            if !set.contains(*d) {
                                r.violation(format!("candidate-not-in-reference entry={entry}"), &case_id, json!({"query": sql, "setting": sname, "derivation": d}));
                                break;
                            }
                        }
                    }
                    // best score among the candidates (the library's own scores)
                    let best = cands.iter().map(|c| c.2).fold(f64::NEG_INFINITY, f64::max);
                    let ties = cands.iter().filter(|c| c.2 == best).count();
                    if ties > 1 {
                        r.reach("reach", "ties-in-score");
                    }
                    // the same with scores recomputed by the harness from the printed derivations
                    let ref_best = cands.iter().map(|c| ref_score(c.0)).fold(f64::NEG_INFINITY, f64::max);
                    let ref_sel = ref_score(sel_deriv);
                    if ref_sel < ref_best {
                        r.violation(
                            format!("not-best-score(recomputed) entry={entry}"),
                            &case_id,
                            json!({"query": sql, "setting": sname, "selected_score_recomputed": ref_sel, "best_score_recomputed": ref_best, "selected": sel_deriv, "library_score_of_selected": sel_score,
                                   "a_better_one": cands.iter().find(|c| ref_score(c.0) == ref_best).map(|c| c.0.clone())}),
                        );
                    }
                    if sel_score < best {
                        r.violation(
                            format!("not-best-score entry={entry}"),
                            &case_id,
                            json!({"query": sql, "setting": sname, "selected_score": sel_score, "best_score": best, "selected": sel_deriv,
                                   "a_better_one": cands.iter().find(|c| c.2 == best).map(|c| c.0.clone())}),
                        );
                    }
                }
                Ok(Err(e)) => {
                    r.reach("outcomes", if matches!(e, RwError::UnreachableProperty(_)) { "unreachable" } else { "other-error" });
                    if ref_count > 0 {
                        r.violation(
                            format!("refused-although-derivation-exists entry={entry}"),
                            &case_id,
                            json!({"query": sql, "setting": sname, "error": e.to_string(), "consistent_derivations_in_the_reference": ref_count.to_string(), "an_example": list.as_ref().and_then(|s| s.iter().next().cloned())}),
                        );
                    } else if !matches!(e, RwError::UnreachableProperty(_)) {
                        r.violation(format!("unreachable-reported-as-other-error entry={entry}"), &case_id, json!({"query": sql, "setting": sname, "error": e.to_string()}));
                    }
                }
                Err(p) => {
                    r.reach("outcomes", "panic");
                    if ref_count > 0 {
                        r.violation(
                            format!("panic-while-derivation-exists {} entry={entry}", p.site()),
                            &case_id,
                            json!({"query": sql, "setting": sname, "panic": p.message, "consistent_derivations_in_the_reference": ref_count.to_string()}),
                        );
                    } else {
                        r.reach("panics_without_derivation(left to C18)", &p.site());
                    }
                }
            }
        }
    });
    head.merge(body);
    head.rule = "trees = E-sql relations (quick: every third) x {all tables protected, users only, users+orders, nothing protected} x synthetic data on/off x entry {DP, PUP hard, PUP soft}; the rule lists are those the real setter attaches; reference = exhaustive enumeration of the consistent derivations (listed for <= 4096, counted by a memoised recursion otherwise, the two cross-checked); oracle on the real search observed through hook H2: Ok <=> a consistent derivation with an acceptable root exists (else UnreachableProperty), the selected derivation is consistent node by node, the search enumerated exactly the reference set, no candidate has a strictly higher score. states = rule-tree nodes, transitions = candidates observed. non-trivial = accepted (tree, setting) pairs".into();
    head.assumptions = vec!["scores are the library's own (the property is relative to them)".into()];
    head
}
