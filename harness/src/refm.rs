//! Reference membership `v ∈ T`, written from the public accessors of the types only
//! (lists of `[min,max]` pairs, struct fields, ...), never through the library's `contains`.
use qrlew::data_type::{value::Value, DataType};

fn in_pairs<T: PartialOrd>(pairs: &[[T; 2]], x: &T) -> bool {
    pairs.iter().any(|[a, b]| a <= x && x <= b)
}

/// exact comparison of an i64 with an f64 bound
fn cmp_i_f(i: i64, f: f64) -> std::cmp::Ordering {
    use std::cmp::Ordering::*;
    if f.is_nan() {
        return Less;
    }
    if f >= 9.3e18 {
        return Less;
    }
    if f <= -9.3e18 {
        return Greater;
    }
    let fl = f.floor();
    let fi = fl as i128;
    let ii = i as i128;
    if ii < fi {
        Less
    } else if ii > fi {
        Greater
    } else if f > fl {
        Less
    } else {
        Equal
    }
}

fn int_in_float_pairs(pairs: &[[f64; 2]], i: i64) -> bool {
    use std::cmp::Ordering::*;
    pairs
        .iter()
        .any(|[a, b]| cmp_i_f(i, *a) != Less && cmp_i_f(i, *b) != Greater)
}

/// floating-point tolerance: `f` within 1e-9 (relative to the magnitude of the interval it is
/// compared with, absolute 1e-12 near zero) of some interval of the set
fn float_close(pairs: &[[f64; 2]], f: f64) -> bool {
    if !f.is_finite() {
        return false;
    }
    pairs.iter().any(|[a, b]| {
        let scale = a.abs().max(b.abs()).max(f.abs());
        let tol = if scale.is_finite() { 1e-9 * scale + 1e-12 } else { 1e-12 };
        f >= a - tol && f <= b + tol
    })
}

/// Does value `v` belong to type `t`? Numeric values are compared through the canonical embedding
/// bool ⊂ int ⊂ float (exactly), `Some(x)` is `x`, `None` belongs only to optional types.
pub fn ref_member(t: &DataType, v: &Value) -> bool {
    match (t, v) {
        (DataType::Any, _) => true,
        (DataType::Null, _) => false,
        (DataType::Optional(o), Value::Optional(x)) => match x.as_ref() {
            None => true,
            Some(x) => ref_member(o.data_type(), x),
        },
        // the library identifies the unit value with NULL (`unit ⊆ option(T)`)
        (DataType::Optional(_), Value::Unit(_)) => true,
        (DataType::Optional(o), x) => ref_member(o.data_type(), x),
        (t, Value::Optional(x)) => match x.as_ref() {
            None => matches!(t, DataType::Unit(_)),
            Some(x) => ref_member(t, x),
        },
        (DataType::Unit(_), Value::Unit(_)) => true,
        (DataType::Boolean(s), Value::Boolean(b)) => in_pairs(s, &**b),
        (DataType::Boolean(s), Value::Integer(i)) => (**i == 0 || **i == 1) && in_pairs(s, &(**i == 1)),
        (DataType::Boolean(s), Value::Float(f)) => (**f == 0.0 || **f == 1.0) && in_pairs(s, &(**f == 1.0)),
        (DataType::Integer(s), Value::Integer(i)) => in_pairs(s, &**i),
        (DataType::Integer(s), Value::Boolean(b)) => in_pairs(s, &(**b as i64)),
        (DataType::Integer(s), Value::Float(f)) => {
            f.fract() == 0.0 && **f >= -9.3e18 && **f <= 9.3e18 && {
                let x = **f as i128;
                x >= i64::MIN as i128 && x <= i64::MAX as i128 && in_pairs(s, &(x as i64))
            }
        }
        (DataType::Float(s), Value::Float(f)) => in_pairs(s, &**f) || float_close(s, **f),
        (DataType::Float(s), Value::Integer(i)) => int_in_float_pairs(s, **i),
        (DataType::Float(s), Value::Boolean(b)) => int_in_float_pairs(s, **b as i64),
        (DataType::Enum(e), Value::Enum(x)) => {
            let (i, _) = &**x;
            e.values().iter().any(|(_, j)| j == i)
        }
        (DataType::Text(s), Value::Text(x)) => in_pairs(s, &**x),
        // the library renders scalars to text when it unifies a scalar with a text type
        (DataType::Text(s), Value::Integer(_))
        | (DataType::Text(s), Value::Float(_))
        | (DataType::Text(s), Value::Boolean(_))
        | (DataType::Text(s), Value::Date(_))
        | (DataType::Text(s), Value::Time(_))
        | (DataType::Text(s), Value::DateTime(_)) => in_pairs(s, &v.to_string()),
        (DataType::Bytes(_), Value::Bytes(_)) => true,
        (DataType::Date(s), Value::Date(x)) => in_pairs(s, &**x),
        (DataType::Time(s), Value::Time(x)) => in_pairs(s, &**x),
        (DataType::DateTime(s), Value::DateTime(x)) => in_pairs(s, &**x),
        // date ⊂ datetime (midnight)
        (DataType::DateTime(s), Value::Date(x)) => in_pairs(s, &x.and_hms_opt(0, 0, 0).unwrap()),
        (DataType::Duration(s), Value::Duration(x)) => in_pairs(s, &**x),
        (DataType::Id(_), Value::Id(_)) => true,
        (DataType::Function(_), Value::Function(_)) => true,
        // record (width) sub-typing, as the library defines its struct types: every field of the
        // type is present in the value with a member value; further fields are allowed
        (DataType::Struct(s), Value::Struct(x)) => {
            let tf = s.fields();
            let vf = x.fields();
            tf.iter().all(|(name, ft)| {
                vf.iter()
                    .find(|(n, _)| n == name)
                    .map_or(false, |(_, fv)| ref_member(ft, fv))
            })
        }
        (DataType::Union(u), Value::Union(x)) => {
            let (name, val) = &**x;
            u.fields()
                .iter()
                .any(|(n, ft)| n == name && ref_member(ft, val))
        }
        (DataType::Union(u), x) => u.fields().iter().any(|(_, ft)| ref_member(ft, x)),
        (DataType::List(l), Value::List(x)) => {
            in_pairs(l.size(), &(x.len() as i64)) && x.iter().all(|e| ref_member(l.data_type(), e))
        }
        (DataType::Set(l), Value::Set(x)) => {
            in_pairs(l.size(), &(x.len() as i64)) && x.iter().all(|e| ref_member(l.data_type(), e))
        }
        (DataType::Array(a), Value::Array(x)) => {
            let (vals, shape) = &**x;
            a.shape() == shape.as_slice() && vals.iter().all(|e| ref_member(a.data_type(), e))
        }
        _ => false,
    }
}

/// Is the value a NaN float (possibly wrapped)?
pub fn is_nan(v: &Value) -> bool {
    match v {
        Value::Float(f) => f.is_nan(),
        Value::Optional(o) => o.as_ref().as_ref().map_or(false, |x| is_nan(x)),
        _ => false,
    }
}

pub fn is_none(v: &Value) -> bool {
    matches!(v, Value::Optional(o) if o.is_none())
}

/// Strict membership: the value has the variant of the type (no numeric / text / optional
/// embeddings at the top level or below). Used as the *premise* of the lattice laws.
pub fn strict_member(t: &DataType, v: &Value) -> bool {
    match (t, v) {
        (DataType::Any, _) => true,
        (DataType::Null, _) => false,
        (DataType::Optional(o), Value::Optional(x)) => match x.as_ref() {
            None => true,
            // nested options are flattened by the library (option(option(T)) = option(T))
            Some(x) => strict_member(o.data_type(), x) || (matches!(x.as_ref(), Value::Optional(_)) && strict_member(t, x)),
        },
        (DataType::Unit(_), Value::Unit(_)) => true,
        (DataType::Boolean(s), Value::Boolean(b)) => in_pairs(s, &**b),
        (DataType::Integer(s), Value::Integer(i)) => in_pairs(s, &**i),
        (DataType::Float(s), Value::Float(f)) => in_pairs(s, &**f),
        (DataType::Enum(e), Value::Enum(x)) => {
            let (i, names) = &**x;
            // same code and same name for that code
            e.values().iter().any(|(n, j)| j == i && names.iter().any(|(m, k)| k == i && m == n))
        }
        (DataType::Text(s), Value::Text(x)) => in_pairs(s, &**x),
        (DataType::Bytes(_), Value::Bytes(_)) => true,
        (DataType::Date(s), Value::Date(x)) => in_pairs(s, &**x),
        (DataType::Time(s), Value::Time(x)) => in_pairs(s, &**x),
        (DataType::DateTime(s), Value::DateTime(x)) => in_pairs(s, &**x),
        (DataType::Duration(s), Value::Duration(x)) => in_pairs(s, &**x),
        (DataType::Id(_), Value::Id(_)) => true,
        (DataType::Struct(s), Value::Struct(x)) => {
            let vf = x.fields();
            s.fields().iter().all(|(name, ft)| {
                vf.iter().find(|(n, _)| n == name).map_or(false, |(_, fv)| strict_member(ft, fv))
            })
        }
        (DataType::Union(u), Value::Union(x)) => {
            let (name, val) = &**x;
            u.fields().iter().any(|(n, ft)| n == name && strict_member(ft, val))
        }
        (DataType::List(l), Value::List(x)) => {
            in_pairs(l.size(), &(x.len() as i64)) && x.iter().all(|e| strict_member(l.data_type(), e))
        }
        (DataType::Set(l), Value::Set(x)) => {
            in_pairs(l.size(), &(x.len() as i64)) && x.iter().all(|e| strict_member(l.data_type(), e))
        }
        (DataType::Array(a), Value::Array(x)) => {
            let (vals, shape) = &**x;
            a.shape() == shape.as_slice() && vals.iter().all(|e| strict_member(a.data_type(), e))
        }
        _ => false,
    }
}
