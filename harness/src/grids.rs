//! Deterministic enumerators: bound grids, point grids, interval sets ("boxes") with the grid
//! points they contain. Simplest first, no RNG.
use chrono::{NaiveDate, NaiveDateTime, NaiveTime};
use qrlew::data_type::{intervals::Intervals, value::Value, DataType};

pub const INT_BOUNDS_SMALL: &[i64] = &[-3, -1, 0, 1, 2, 5];
pub const INT_BOUNDS_EXTREME: &[i64] = &[
    i64::MIN,
    i64::MIN + 1,
    -(1 << 53) - 1,
    1 << 53,
    (1 << 53) + 1,
    i64::MAX - 1,
    i64::MAX,
];
pub const FLOAT_BOUNDS_SMALL: &[f64] = &[-2.5, -1.0, -0.5, 0.0, 0.5, 1.0, 2.5];
pub const FLOAT_BOUNDS_EXTREME: &[f64] = &[-f64::MAX, -1e300, 5e-324, 1e300, f64::MAX];
pub const TEXTS: &[&str] = &["", "1", "A", "Z", "a", "a'b", "b", "true", "z", "é"];

pub fn dates() -> Vec<NaiveDate> {
    vec![
        NaiveDate::from_ymd_opt(1969, 12, 31).unwrap(),
        NaiveDate::from_ymd_opt(2000, 2, 29).unwrap(),
        NaiveDate::from_ymd_opt(2020, 12, 28).unwrap(),
        NaiveDate::from_ymd_opt(2021, 1, 3).unwrap(),
        NaiveDate::from_ymd_opt(2026, 12, 31).unwrap(),
    ]
}
pub fn times() -> Vec<NaiveTime> {
    vec![
        NaiveTime::from_hms_opt(0, 0, 0).unwrap(),
        NaiveTime::from_hms_micro_opt(12, 30, 15, 250_000).unwrap(),
        // two instants within one second: conversions must keep them apart
        NaiveTime::from_hms_micro_opt(12, 30, 15, 750_000).unwrap(),
        NaiveTime::from_hms_micro_opt(23, 59, 59, 999_999).unwrap(),
    ]
}
pub fn datetimes() -> Vec<NaiveDateTime> {
    let d = dates();
    let t = times();
    vec![
        d[0].and_time(t[3]),
        d[1].and_time(t[1]),
        d[1].and_time(t[2]),
        d[2].and_time(t[0]),
        d[3].and_time(t[1]),
        d[4].and_time(t[3]),
    ]
}

/// A set of argument values described by a type, with the grid points it contains
#[derive(Clone, Debug)]
pub struct Boxed {
    pub kind: &'static str,
    pub desc: String,
    pub data_type: DataType,
    pub points: Vec<Value>,
}

fn sorted_dedup_i(mut v: Vec<i64>) -> Vec<i64> {
    v.sort();
    v.dedup();
    v
}
fn sorted_dedup_f(mut v: Vec<f64>) -> Vec<f64> {
    v.sort_by(|a, b| a.partial_cmp(b).unwrap());
    v.dedup();
    v
}

/// point grid for integers: bounds, midpoints, neighbours
pub fn int_points(bounds: &[i64]) -> Vec<i64> {
    let mut p = vec![];
    for (i, &b) in bounds.iter().enumerate() {
        p.push(b);
        p.push(b.saturating_add(1));
        p.push(b.saturating_sub(1));
        if i + 1 < bounds.len() {
            let c = bounds[i + 1];
            p.push(((b as i128 + c as i128) / 2) as i64);
        }
    }
    sorted_dedup_i(p)
}

pub fn float_points(bounds: &[f64]) -> Vec<f64> {
    let mut p = vec![];
    for (i, &b) in bounds.iter().enumerate() {
        p.push(b);
        p.push(next_up(b));
        p.push(next_down(b));
        if i + 1 < bounds.len() {
            let c = bounds[i + 1];
            p.push(b / 2.0 + c / 2.0);
        }
    }
    p.retain(|x| x.is_finite());
    sorted_dedup_f(p)
}

pub fn next_up(x: f64) -> f64 {
    if x.is_nan() || x == f64::INFINITY {
        return x;
    }
    if x == 0.0 {
        return f64::from_bits(1);
    }
    let b = x.to_bits();
    if x > 0.0 {
        f64::from_bits(b + 1)
    } else {
        f64::from_bits(b - 1)
    }
}
pub fn next_down(x: f64) -> f64 {
    -next_up(-x)
}

/// all interval sets made of at most `k` disjoint intervals with endpoints on `bounds` (incl.
/// degenerate intervals), as lists of [lo,hi]
pub fn interval_lists<T: Copy + PartialOrd>(bounds: &[T], k: usize) -> Vec<Vec<[T; 2]>> {
    let n = bounds.len();
    let mut singles = vec![];
    for i in 0..n {
        for j in i..n {
            singles.push((i, j));
        }
    }
    // simplest first: by width then position
    singles.sort_by_key(|&(i, j)| (j - i, i));
    let mut out: Vec<Vec<[T; 2]>> = vec![];
    for &(i, j) in &singles {
        out.push(vec![[bounds[i], bounds[j]]]);
    }
    if k >= 2 {
        for &(i, j) in &singles {
            for &(i2, j2) in &singles {
                if i2 > j {
                    out.push(vec![[bounds[i], bounds[j]], [bounds[i2], bounds[j2]]]);
                }
            }
        }
    }
    if k >= 3 {
        for &(i, j) in &singles {
            for &(i2, j2) in &singles {
                if i2 <= j {
                    continue;
                }
                for &(i3, j3) in &singles {
                    if i3 > j2 && j - i <= 1 && j2 - i2 <= 1 && j3 - i3 <= 1 {
                        out.push(vec![
                            [bounds[i], bounds[j]],
                            [bounds[i2], bounds[j2]],
                            [bounds[i3], bounds[j3]],
                        ]);
                    }
                }
            }
        }
    }
    out
}

fn in_list<T: PartialOrd>(l: &[[T; 2]], x: &T) -> bool {
    l.iter().any(|[a, b]| a <= x && x <= b)
}

pub fn int_boxes(bounds: &[i64], k: usize, max_points: usize) -> Vec<Boxed> {
    let pts = int_points(bounds);
    interval_lists(bounds, k)
        .into_iter()
        .map(|l| {
            let iv: Intervals<i64> = Intervals::from_intervals(&l);
            let mut points: Vec<i64> = pts.iter().cloned().filter(|p| in_list(&l, p)).collect();
            thin(&mut points, max_points);
            Boxed {
                kind: "int",
                desc: format!("int{:?}", l),
                data_type: DataType::Integer(iv),
                points: points.into_iter().map(Value::integer).collect(),
            }
        })
        .collect()
}

pub fn float_boxes(bounds: &[f64], k: usize, max_points: usize) -> Vec<Boxed> {
    let pts = float_points(bounds);
    interval_lists(bounds, k)
        .into_iter()
        .map(|l| {
            let iv: Intervals<f64> = Intervals::from_intervals(&l);
            let mut points: Vec<f64> = pts.iter().cloned().filter(|p| in_list(&l, p)).collect();
            thin(&mut points, max_points);
            Boxed {
                kind: "float",
                desc: format!("float{:?}", l),
                data_type: DataType::Float(iv),
                points: points.into_iter().map(Value::float).collect(),
            }
        })
        .collect()
}

/// keep at most `max` points: both ends, then evenly spread interior points
fn thin<T: Clone>(points: &mut Vec<T>, max: usize) {
    if points.len() <= max || max < 2 {
        return;
    }
    let n = points.len();
    let mut keep = vec![];
    for i in 0..max {
        keep.push(i * (n - 1) / (max - 1));
    }
    keep.dedup();
    *points = keep.into_iter().map(|i| points[i].clone()).collect();
}

pub fn text_boxes(k: usize, max_points: usize) -> Vec<Boxed> {
    let bounds: Vec<String> = {
        let mut t: Vec<String> = TEXTS.iter().map(|s| s.to_string()).collect();
        t.sort();
        t
    };
    let idx: Vec<usize> = (0..bounds.len()).collect();
    let mut out = vec![];
    for l in interval_lists(&idx, k) {
        // only a subset of text interval lists: width 0, 1, or full-ish
        let l2: Vec<[String; 2]> = l
            .iter()
            .map(|[a, b]| [bounds[*a].clone(), bounds[*b].clone()])
            .collect();
        let iv: Intervals<String> = Intervals::from_intervals(&l2);
        let mut points: Vec<String> = bounds.iter().cloned().filter(|p| in_list(&l2, p)).collect();
        thin(&mut points, max_points);
        out.push(Boxed {
            kind: "text",
            desc: format!("text{:?}", l2),
            data_type: DataType::Text(iv),
            points: points.into_iter().map(Value::text).collect(),
        });
    }
    // the full text type
    out.push(Boxed {
        kind: "text",
        desc: "text(full)".into(),
        data_type: DataType::text(),
        points: bounds.iter().cloned().map(Value::text).collect(),
    });
    out
}

pub fn bool_boxes() -> Vec<Boxed> {
    let mk = |l: Vec<[bool; 2]>, pts: Vec<bool>| Boxed {
        kind: "bool",
        desc: format!("bool{:?}", l),
        data_type: DataType::Boolean(Intervals::from_intervals(&l)),
        points: pts.into_iter().map(Value::boolean).collect(),
    };
    vec![
        mk(vec![[false, true]], vec![false, true]),
        mk(vec![[false, false]], vec![false]),
        mk(vec![[true, true]], vec![true]),
    ]
}

pub fn date_boxes(k: usize) -> Vec<Boxed> {
    let b = dates();
    interval_lists(&b, k)
        .into_iter()
        .map(|l| Boxed {
            kind: "date",
            desc: format!("date{:?}", l),
            data_type: DataType::Date(Intervals::from_intervals(&l)),
            points: b.iter().filter(|p| in_list(&l, p)).cloned().map(Value::date).collect(),
        })
        .collect()
}
pub fn time_boxes() -> Vec<Boxed> {
    let b = times();
    interval_lists(&b, 1)
        .into_iter()
        .map(|l| Boxed {
            kind: "time",
            desc: format!("time{:?}", l),
            data_type: DataType::Time(Intervals::from_intervals(&l)),
            points: b.iter().filter(|p| in_list(&l, p)).cloned().map(Value::time).collect(),
        })
        .collect()
}
pub fn datetime_boxes(k: usize) -> Vec<Boxed> {
    let b = datetimes();
    interval_lists(&b, k)
        .into_iter()
        .map(|l| Boxed {
            kind: "datetime",
            desc: format!("datetime{:?}", l),
            data_type: DataType::DateTime(Intervals::from_intervals(&l)),
            points: b
                .iter()
                .filter(|p| in_list(&l, p))
                .cloned()
                .map(Value::date_time)
                .collect(),
        })
        .collect()
}

/// Keep only the points that really belong to the type (by the reference membership): the point
/// grid is only a source of candidates, S is what the type says.
pub fn sanitize(mut b: Boxed) -> Boxed {
    let t = b.data_type.clone();
    b.points.retain(|p| crate::refm::ref_member(&t, p));
    b
}

/// Optional(T) of a box: the same points wrapped in Some, plus None
pub fn optional_of(b: &Boxed) -> Boxed {
    let mut points: Vec<Value> = vec![Value::none()];
    points.extend(b.points.iter().cloned().map(Value::some));
    Boxed {
        kind: match b.kind {
            "int" => "opt-int",
            "float" => "opt-float",
            "text" => "opt-text",
            "bool" => "opt-bool",
            "date" => "opt-date",
            "time" => "opt-time",
            "datetime" => "opt-datetime",
            _ => "opt",
        },
        desc: format!("option({})", b.desc),
        data_type: DataType::optional(b.data_type.clone()),
        points,
    }
}
