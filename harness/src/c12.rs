//! C12 — type conversions are value-preserving injections within the converted type.
//! Exhaustive over ordered pairs (A, B) of an enumerated type universe x all pairs of values of A.
use crate::c06::kind_of;
use crate::c11::{composite_types, primitive_types, value_universe};
use crate::common::*;
use crate::refm::*;
use qrlew::data_type::value::Variant as _;
use qrlew::data_type::{value::Value, DataType, Variant as _};
use serde_json::json;

fn more_values() -> Vec<Value> {
    // values around 2^53 and the i64 extremes, non-integral floats, out-of-range booleans-as-ints
    vec![
        Value::integer((1 << 53) - 1),
        Value::integer(i64::MAX),
        Value::integer(i64::MAX - 1),
        Value::integer(i64::MIN),
        Value::integer(i64::MIN + 1),
        Value::float(9007199254740992.0),
        Value::float(9007199254740994.0),
        Value::float(-0.0),
        Value::float(1e300),
        Value::float(1e-300),
        Value::float(5e-17),
        Value::float(f64::MIN_POSITIVE),
        Value::text("0"),
        Value::text("false"),
        Value::text("1.0"),
        Value::text("01"),
        Value::text("1e0"),
        Value::text(" 1"),
        Value::text("2000-02-29 00:00:00"),
        // instants that differ within one second / one minute (a conversion through a coarser text format merges them)
        Value::time(chrono::NaiveTime::from_hms_micro_opt(12, 30, 15, 250_000).unwrap()),
        Value::time(chrono::NaiveTime::from_hms_micro_opt(12, 30, 15, 750_000).unwrap()),
        Value::time(chrono::NaiveTime::from_hms_opt(12, 30, 16).unwrap()),
        Value::date_time(chrono::NaiveDate::from_ymd_opt(2010, 6, 1).unwrap().and_hms_micro_opt(10, 0, 0, 250_000).unwrap()),
        Value::date_time(chrono::NaiveDate::from_ymd_opt(2010, 6, 1).unwrap().and_hms_micro_opt(10, 0, 0, 750_000).unwrap()),
        Value::date_time(chrono::NaiveDate::from_ymd_opt(2010, 6, 1).unwrap().and_hms_opt(10, 0, 1).unwrap()),
        // dates before the common era and beyond year 9999 (their ISO text does not sort chronologically)
        Value::date(chrono::NaiveDate::from_ymd_opt(-50, 1, 1).unwrap()),
        Value::date(chrono::NaiveDate::from_ymd_opt(-44, 3, 15).unwrap()),
        Value::date(chrono::NaiveDate::from_ymd_opt(-1, 12, 31).unwrap()),
        Value::date(chrono::NaiveDate::from_ymd_opt(14, 8, 19).unwrap()),
        Value::date(chrono::NaiveDate::from_ymd_opt(9999, 12, 31).unwrap()),
        Value::date(chrono::NaiveDate::from_ymd_opt(10000, 1, 1).unwrap()),
        Value::date_time(chrono::NaiveDate::from_ymd_opt(-44, 3, 15).unwrap().and_hms_opt(12, 0, 0).unwrap()),
        Value::date_time(chrono::NaiveDate::from_ymd_opt(-50, 1, 1).unwrap().and_hms_opt(0, 0, 0).unwrap()),
        Value::date_time(chrono::NaiveDate::from_ymd_opt(14, 8, 19).unwrap().and_hms_opt(0, 0, 0).unwrap()),
        // midnight and an instant within the first second after it (seed C12-5: the midnight test of
        // DateTime -> Date compared hour, minute and second only)
        Value::date_time(chrono::NaiveDate::from_ymd_opt(2000, 2, 29).unwrap().and_hms_opt(0, 0, 0).unwrap()),
        Value::date_time(chrono::NaiveDate::from_ymd_opt(2000, 2, 29).unwrap().and_hms_milli_opt(0, 0, 0, 500).unwrap()),
        Value::date_time(chrono::NaiveDate::from_ymd_opt(2000, 2, 29).unwrap().and_hms_nano_opt(0, 0, 0, 1).unwrap()),
        Value::duration(chrono::Duration::milliseconds(30_250)),
        Value::duration(chrono::Duration::milliseconds(30_750)),
    ]
}

fn more_types() -> Vec<DataType> {
    use qrlew::data_type::intervals::Intervals as I;
    let s = |x: &str| x.to_string();
    vec![
        DataType::integer_interval(i64::MAX - 1, i64::MAX),
        DataType::integer_values([i64::MIN, i64::MIN + 1]),
        DataType::integer_values([2, 4]),
        DataType::float_values([0.5, 7.25]),
        DataType::float_values([9007199254740992.0, 9007199254740994.0]),
        DataType::float_values([-0.0, 0.0]),
        DataType::float_values([0.0, 1e-300]),
        DataType::float_values([5e-17, 1.0]),
        DataType::float_interval(0.25, 0.75),
        DataType::text_values([s("0"), s("1"), s("01"), s("1.0"), s("1e0"), s(" 1")]),
        DataType::text_values([s("true"), s("false")]),
        DataType::text_values([s("2000-02-29"), s("2000-02-29 00:00:00")]),
        DataType::Float(I::from_intervals([[0.0, 0.0], [1.0, 1.0], [2.0, 2.0]])),
        // date / datetime ranges longer than 128 days that start before the common era or end after year 9999
        DataType::date_interval(chrono::NaiveDate::from_ymd_opt(-50, 1, 1).unwrap(), chrono::NaiveDate::from_ymd_opt(14, 8, 19).unwrap()),
        DataType::date_interval(chrono::NaiveDate::from_ymd_opt(-50, 1, 1).unwrap(), chrono::NaiveDate::from_ymd_opt(-1, 12, 31).unwrap()),
        DataType::date_interval(chrono::NaiveDate::from_ymd_opt(9999, 1, 1).unwrap(), chrono::NaiveDate::from_ymd_opt(10000, 12, 31).unwrap()),
        DataType::date_time_interval(chrono::NaiveDate::from_ymd_opt(-50, 1, 1).unwrap().and_hms_opt(0, 0, 0).unwrap(), chrono::NaiveDate::from_ymd_opt(14, 8, 19).unwrap().and_hms_opt(0, 0, 0).unwrap()),
    ]
}

pub fn run(ctx: &Ctx) -> Report {
    let prims = primitive_types();
    let mut types = prims.clone();
    types.extend(more_types());
    types.extend(composite_types(&prims, ctx.tier));
    let mut values = value_universe();
    values.extend(more_values());
    let n = types.len();
    let members: Vec<Vec<usize>> = types
        .iter()
        .map(|t| (0..values.len()).filter(|k| strict_member(t, &values[*k])).collect())
        .collect();
    let items: Vec<usize> = (0..n).filter(|i| ctx.wants(&format!("conv/A={}", i))).collect();
    let types = &types;
    let values = &values;
    let members = &members;
    let mut report = par_reports_isolated(items, "exploration", move |i, r| {
        let a = &types[i];
        let case_id = format!("conv/A={}", i);
        let ka = kind_of(a);
        // `any` (alone or inside a composite) accepts every value: conversions from it are wrappers,
        // not injections between variants; the clauses below are about real source types
        if a.to_string().contains("any") {
            r.add_count("source_types_skipped_any", 1);
            return;
        }
        fn constructor(k: &str) -> &str {
            k.split('-').next().unwrap_or(k)
        }
        fn is_primitive(k: &str) -> bool {
            matches!(k, "bool" | "int" | "float" | "text" | "bytes" | "date" | "time" | "datetime" | "duration" | "enum")
        }
        for b in types.iter() {
            let kb = kind_of(b);
            r.add_count("type_pairs", 1);
            let conv = guarded(|| a.into_data_type(b));
            let t = match conv {
                Ok(Ok(t)) => t,
                Ok(Err(_)) => {
                    r.reach("refused_by_variant_pair", &format!("{ka}->{kb}"));
                    continue;
                }
                Err(p) => {
                    r.violation(format!("conv panic@{} op=into_data_type", p.site()), &case_id, json!({"A": a.to_string(), "B": b.to_string(), "panic": p.message}));
                    continue;
                }
            };
            r.reach("convertible_by_variant_pair", &format!("{ka}->{kb}"));
            let mut images: Vec<(usize, Value)> = vec![];
            for &k in &members[i] {
                let v = &values[k];
                r.evaluations += 1;
                match guarded(|| v.as_data_type(&t)) {
                    Ok(Ok(w)) => {
                        r.distinct_nontrivial += 1;
                        if !ref_member(&t, &w) {
                            r.violation(
                                format!("conv A={ka} B={kb} fail=outside-converted-type"),
                                &case_id,
                                json!({"A": a.to_string(), "B": b.to_string(), "converted_type": t.to_string(), "value": v.to_string(), "converted_value": w.to_string()}),
                            );
                        }
                        // round trip, where the reverse conversion exists
                        let same_shape = (is_primitive(&ka) && is_primitive(&kb)) || (!is_primitive(&ka) && constructor(&ka) == constructor(&kb));
                        if !same_shape || t.to_string().contains("any") {
                            // wrapping conversions (scalar -> list / struct / option ...) have no inverse to demand
                        } else if let Ok(Ok(_back_t)) = guarded(|| t.into_data_type(a)) {
                            match guarded(|| w.as_data_type(a)) {
                                Ok(Ok(v2)) => {
                                    r.add_count("round_trips", 1);
                                    if &v2 != v {
                                        r.violation(
                                            format!("conv A={ka} B={kb} fail=round-trip"),
                                            &case_id,
                                            json!({"A": a.to_string(), "B": b.to_string(), "value": v.to_string(), "converted_value": w.to_string(), "back": v2.to_string()}),
                                        );
                                    }
                                }
                                Ok(Err(_)) => {}
                                Err(p) => r.violation(format!("conv panic@{} op=as_data_type(back)", p.site()), &case_id, json!({"A": a.to_string(), "B": b.to_string(), "value": w.to_string()})),
                            }
                        }
                        images.push((k, w));
                    }
                    Ok(Err(e)) => {
                        r.violation(
                            format!("conv A={ka} B={kb} fail=value-conversion-refused"),
                            &case_id,
                            json!({"A": a.to_string(), "B": b.to_string(), "converted_type": t.to_string(), "value": v.to_string(), "error": e.to_string().chars().take(160).collect::<String>(),
                                   "note": "the type is convertible but a value of it is not"}),
                        );
                    }
                    Err(p) => r.violation(format!("conv panic@{} op=as_data_type", p.site()), &case_id, json!({"A": a.to_string(), "B": b.to_string(), "value": v.to_string(), "panic": p.message})),
                }
            }
            // injectivity: all pairs
            for x in 0..images.len() {
                for y in (x + 1)..images.len() {
                    r.evaluations += 1;
                    let (k1, w1) = &images[x];
                    let (k2, w2) = &images[y];
                    if values[*k1] != values[*k2] && w1 == w2 {
                        r.violation(
                            format!("conv A={ka} B={kb} fail=not-injective"),
                            &case_id,
                            json!({"A": a.to_string(), "B": b.to_string(), "value_1": values[*k1].to_string(), "value_2": values[*k2].to_string(), "both_convert_to": w1.to_string()}),
                        );
                    }
                }
            }
        }
        // refusal clauses
        if r.samples.is_empty() && i == 9 {
            r.sample(json!({"A": a.to_string(), "B": "float", "converted_type": guarded(|| a.into_data_type(&DataType::float())).ok().map(|x| x.map(|t| t.to_string()).unwrap_or_default()),
                "values": members[i].iter().map(|k| values[*k].to_string()).collect::<Vec<_>>()}));
        }
    });
    // lossy conversions must be refused
    let refusals: Vec<(&str, DataType, Value, DataType)> = vec![
        ("float(0.5)->integer", DataType::float_value(0.5), Value::float(0.5), DataType::integer()),
        ("float[0.25,0.75]->integer", DataType::float_interval(0.25, 0.75), Value::float(0.5), DataType::integer()),
        ("float{0.5,7.25}->integer", DataType::float_values([0.5, 7.25]), Value::float(7.25), DataType::integer()),
        ("integer(2)->boolean", DataType::integer_value(2), Value::integer(2), DataType::boolean()),
        ("integer[-3,5]->boolean", DataType::integer_interval(-3, 5), Value::integer(-3), DataType::boolean()),
        ("float(2.0)->boolean", DataType::float_value(2.0), Value::float(2.0), DataType::boolean()),
        ("float(1e300)->integer", DataType::float_value(1e300), Value::float(1e300), DataType::integer()),
        ("text('a')->integer", DataType::text_value("a".to_string()), Value::text("a"), DataType::integer()),
    ];
    if ctx.replay.is_none() || ctx.wants("conv/refusals") {
        for (name, a, v, b) in refusals {
            report.evaluations += 1;
            report.add_count("refusal_probes", 1);
            let tconv = guarded(|| a.into_data_type(&b));
            let vconv = guarded(|| v.as_data_type(&b));
            let type_ok = !matches!(tconv, Ok(Ok(_)));
            let value_ok = !matches!(vconv, Ok(Ok(_)));
            if !type_ok || !value_ok {
                report.violation(
                    format!("conv fail=not-refused {name}"),
                    "conv/refusals",
                    json!({"A": a.to_string(), "B": b.to_string(), "value": v.to_string(),
                           "type_conversion": format!("{:?}", tconv.map(|x| x.map(|t| t.to_string()).map_err(|e| e.to_string())).map_err(|p| p.site())),
                           "value_conversion": format!("{:?}", vconv.map(|x| x.map(|t| t.to_string()).map_err(|e| e.to_string())).map_err(|p| p.site()))}),
                );
            }
        }
    }
    report.set("types", n as u64);
    report.set("values", values.len() as u64);
    report.rule = "all ordered pairs (A,B) of an enumerated type universe (21 variants, depth<=2, integers around 2^53 and the i64 extremes, value sets rendered to text) x all values of A in a value universe and all pairs of them; oracle: into_data_type Ok(T) => as_data_type(v) Ok(w), w in T (reference membership), v1!=v2 => w1!=w2, reverse conversion returns v; lossy conversions refused. non-trivial = converted values".into();
    report.assumptions = vec!["values outside the universe are not explored".into()];
    report
}
