//! E-sql2: compositional enumeration of the supported SQL fragment.
//!
//! A query is a constructor term over the base tables of E-world:
//!   unary   P* (projection / filter), A* (aggregation), D* (DISTINCT), O* (ORDER BY + LIMIT/OFFSET)
//!   binary  J.<kind>.<on>.<select> (joins of two sub-queries), S.<op> (set operations)
//! Sub-queries are embedded as derived tables or as CTEs. `compose(depth)` returns EVERY term of nesting
//! depth <= depth over the constructor alphabets below (the alphabets are lean on purpose: what is
//! enumerated exhaustively is the *composition*, which is where name resolution, constraint / size
//! propagation and the rewritings go wrong). Each term carries the SQL text of its strict sub-terms.
use crate::sqlgen::{GenQuery, Order};

#[derive(Clone, Copy, PartialEq, Debug)]
pub enum Kind {
    I,
    F,
    T,
}

#[derive(Clone, Debug)]
pub struct Col {
    pub name: String,
    pub kind: Kind,
    /// a constant inside the column's range to compare with (numeric kinds)
    pub pv: f64,
    /// a constant of the column's domain (text)
    pub pt: String,
    /// usable as a measure (argument of sum/avg, arithmetic)
    pub measure: bool,
    /// usable as a grouping key (small domain)
    pub key: bool,
    /// join domain: columns of the same non-empty domain are natural join partners
    pub dom: &'static str,
}

#[derive(Clone, Debug)]
pub struct Rel {
    /// constructor term
    pub term: String,
    /// the query text (base tables: `SELECT <cols> FROM <table>`)
    pub sql: String,
    pub table: Option<&'static str>,
    pub cols: Vec<Col>,
    pub tables: Vec<&'static str>,
    pub depth: usize,
    /// query texts of the strict sub-terms that are queries themselves (not base tables)
    pub subqueries: Vec<String>,
    /// true when the rows returned are a function of the database (a LIMIT under a total order or no LIMIT)
    pub total_order: bool,
    pub limit: bool,
    pub tags: Vec<&'static str>,
}

fn col(name: &str, kind: Kind, pv: f64, pt: &str, measure: bool, key: bool) -> Col {
    Col { name: name.to_string(), kind, pv, pt: pt.to_string(), measure, key, dom: "" }
}
fn dcol(name: &str, kind: Kind, pv: f64, pt: &str, measure: bool, key: bool, dom: &'static str) -> Col {
    Col { name: name.to_string(), kind, pv, pt: pt.to_string(), measure, key, dom }
}

pub fn base_tables() -> Vec<Rel> {
    let t = |name: &'static str, cols: Vec<Col>| Rel {
        term: name.to_string(),
        sql: format!("SELECT {} FROM {}", cols.iter().map(|c| c.name.clone()).collect::<Vec<_>>().join(", "), name),
        table: Some(name),
        cols,
        tables: vec![name],
        depth: 0,
        subqueries: vec![],
        total_order: true,
        limit: false,
        tags: vec![],
    };
    vec![
        t("users", vec![dcol("id", Kind::I, 2.0, "", false, true, "uid"), col("age", Kind::I, 19.0, "", true, false), dcol("city", Kind::T, 0.0, "A", false, true, "city")]),
        t("orders", vec![dcol("id", Kind::I, 2.0, "", false, true, "oid"), dcol("user_id", Kind::I, 1.0, "", false, true, "uid"), col("amount", Kind::F, 5.0, "", true, false)]),
        t("ref", vec![dcol("city", Kind::T, 0.0, "A", false, true, "city"), col("zone", Kind::I, 0.0, "", true, true)]),
        t("items", vec![dcol("order_id", Kind::I, 1.0, "", false, true, "oid"), col("price", Kind::F, 1.5, "", true, false), col("qty", Kind::I, 2.0, "", true, true)]),
    ]
}

#[derive(Clone, Copy, PartialEq)]
pub enum Form {
    Derived,
    Cte,
}

/// (WITH prefix, FROM item) embedding `r` under the alias `alias`
fn source(r: &Rel, alias: &str, form: Form) -> (String, String) {
    match (r.table, form) {
        (Some(t), _) => (String::new(), if alias == t { t.to_string() } else { format!("{t} AS {alias}") }),
        (None, Form::Derived) => (String::new(), format!("({}) AS {alias}", r.sql)),
        (None, Form::Cte) => (format!("WITH {alias} AS ({}) ", r.sql), alias.to_string()),
    }
}

fn lit(c: &Col) -> String {
    match c.kind {
        Kind::I => format!("{}", c.pv as i64),
        Kind::F => format!("{}", c.pv),
        Kind::T => format!("'{}'", c.pt),
    }
}

struct Picks<'a> {
    /// first measure column
    n: Option<&'a Col>,
    /// a second numeric column, different from n
    n2: Option<&'a Col>,
    /// first key column different from n
    k: Option<&'a Col>,
    /// second key column
    k2: Option<&'a Col>,
}

fn picks(cols: &[Col]) -> Picks<'_> {
    let n = cols.iter().find(|c| c.measure && c.kind != Kind::T).or_else(|| cols.iter().find(|c| c.kind != Kind::T));
    let n2 = cols.iter().find(|c| c.kind != Kind::T && n.map_or(true, |n| n.name != c.name));
    let not_n = |c: &&Col| n.map_or(true, |n| n.name != c.name);
    let k = cols
        .iter()
        .filter(not_n)
        .find(|c| c.key && c.kind == Kind::T)
        .or_else(|| cols.iter().filter(not_n).find(|c| c.key && c.dom == "uid" && c.name != "id"))
        .or_else(|| cols.iter().filter(not_n).find(|c| c.key))
        .or_else(|| cols.iter().find(not_n));
    let k2 = cols.iter().find(|c| c.key && k.map_or(true, |k| k.name != c.name) && n.map_or(true, |n| n.name != c.name));
    Picks { n, n2, k, k2 }
}

fn derived(term: String, sql: String, cols: Vec<Col>, srcs: &[&Rel], tags: Vec<&'static str>, total_order: bool, limit: bool) -> Rel {
    let mut tables: Vec<&'static str> = srcs.iter().flat_map(|s| s.tables.iter().cloned()).collect();
    tables.sort();
    tables.dedup();
    let mut subqueries = vec![];
    for s in srcs {
        if s.table.is_none() {
            subqueries.push(s.sql.clone());
            subqueries.extend(s.subqueries.iter().cloned());
        }
    }
    let mut tags = tags;
    for s in srcs {
        for t in &s.tags {
            if !tags.contains(t) {
                tags.push(t);
            }
        }
    }
    Rel {
        term,
        sql,
        table: None,
        cols,
        tables,
        depth: 1 + srcs.iter().map(|s| s.depth).max().unwrap_or(0),
        subqueries,
        total_order: total_order && srcs.iter().all(|s| s.total_order),
        limit,
        tags,
    }
}

fn out(name: &str, from: &Col) -> Col {
    Col { name: name.to_string(), ..from.clone() }
}
fn out_num(name: &str, kind: Kind, pv: f64, measure: bool, key: bool) -> Col {
    col(name, kind, pv, "", measure, key)
}

/// every unary constructor applied to `s`; `top` adds the variants that only make sense as the outermost
/// query (unaliased expressions, repeated expressions)
pub fn unary(s: &Rel, form: Form, top: bool) -> Vec<Rel> {
    let mut v = vec![];
    let alias = if form == Form::Cte { "c1" } else { "t1" };
    let (with, from) = source(s, if s.table.is_some() { s.table.unwrap() } else { alias }, form);
    let f = if form == Form::Cte && s.table.is_none() { "c" } else { "" };
    let p = picks(&s.cols);
    let all = s.cols.iter().map(|c| c.name.clone()).collect::<Vec<_>>().join(", ");
    let mut push = |id: &str, body: String, cols: Vec<Col>, tags: Vec<&'static str>, total: bool, limit: bool| {
        v.push(derived(format!("{id}{f}({})", s.term), format!("{with}{body}"), cols, &[s], tags, total, limit));
    };
    // ---- projections / filters
    if s.table.is_none() {
        // P1 over a base table is the base table itself
        push("P1", format!("SELECT {all} FROM {from}"), s.cols.clone(), vec!["projection"], true, false);
    }
    if let Some(n) = p.n {
        let nn = &n.name;
        if let Some(k) = p.k {
            push("P2", format!("SELECT {nn} + 1 AS x, {} AS y FROM {from}", k.name), vec![out_num("x", n.kind, n.pv + 1.0, true, n.key), out("y", k)], vec!["projection"], true, false);
            push(
                "P5",
                format!("SELECT CASE WHEN {nn} > {} THEN 1 ELSE 0 END AS x, {} AS y FROM {from}", lit(n), k.name),
                vec![out_num("x", Kind::I, 0.0, true, true), out("y", k)],
                vec!["projection", "case"],
                true,
                false,
            );
            push(
                "P7",
                format!("SELECT {all} FROM {from} WHERE {nn} > {}", lit(n)),
                s.cols.clone(),
                vec!["projection", "filter"],
                true,
                false,
            );
            push(
                "P9",
                format!("SELECT {} AS x, {nn} AS y FROM {from} WHERE {nn} <= {} OR {} = {}", k.name, lit(n), k.name, lit(k)),
                vec![out("x", k), out("y", n)],
                vec!["projection", "filter", "or"],
                true,
                false,
            );
        }
        push("P3", format!("SELECT -{nn} AS x FROM {from}"), vec![out_num("x", n.kind, -n.pv, true, n.key)], vec!["projection", "neg"], true, false);
        push("P4", format!("SELECT {nn} AS x, {nn} AS y FROM {from}"), vec![out("x", n), out("y", n)], vec!["projection", "same-column-twice"], true, false);
        push(
            "P8",
            format!("SELECT -(-{nn}) AS x, abs({nn} - {}) AS y FROM {from}", lit(n)),
            vec![out("x", n), out_num("y", n.kind, 0.5, true, false)],
            vec!["projection", "neg", "abs"],
            true,
            false,
        );
        if let Some(n2) = p.n2 {
            push(
                "P6",
                format!("SELECT {nn} * {} AS x, {nn} - {} AS y FROM {from}", n2.name, n2.name),
                vec![out_num("x", if n.kind == Kind::F || n2.kind == Kind::F { Kind::F } else { Kind::I }, n.pv * n2.pv, true, false), out_num("y", if n.kind == Kind::F || n2.kind == Kind::F { Kind::F } else { Kind::I }, n.pv - n2.pv, true, false)],
                vec!["projection", "arith"],
                true,
                false,
            );
        }
        if top {
            if let Some(k) = p.k {
                push("PT1", format!("SELECT {nn} + 1, {}, {nn} + 1 FROM {from}", k.name), vec![out_num("?", n.kind, n.pv + 1.0, true, false), out("?", k), out_num("?", n.kind, n.pv + 1.0, true, false)], vec!["projection", "unaliased", "repeated-expression"], true, false);
                push("PT2", format!("SELECT {nn} * 2, {} FROM {from}", k.name), vec![out_num("?", n.kind, n.pv * 2.0, true, false), out("?", k)], vec!["projection", "unaliased"], true, false);
            }
        }
    }
    // P11: the (unique / join) key next to another integer column: rows of two columns for set operations
    if let Some(j) = s.cols.iter().find(|c| !c.dom.is_empty() && c.kind == Kind::I) {
        if let Some(o) = s.cols.iter().find(|c| c.kind == Kind::I && c.name != j.name) {
            push("P11", format!("SELECT {} AS x, {} AS y FROM {from}", j.name, o.name), vec![out("x", j), out("y", o)], vec!["projection", "key-and-column"], true, false);
        }
    }
    if let Some(t) = s.cols.iter().find(|c| c.kind == Kind::T) {
        push(
            "P10",
            format!("SELECT upper({}) AS x, {} || 'x' AS y FROM {from} WHERE NOT ({} = {})", t.name, t.name, t.name, lit(t)),
            vec![col("x", Kind::T, 0.0, &t.pt.to_uppercase(), false, true), col("y", Kind::T, 0.0, &format!("{}x", t.pt), false, true)],
            vec!["projection", "text", "filter"],
            true,
            false,
        );
    }
    // ---- aggregations
    push("A1", format!("SELECT count(*) AS x FROM {from}"), vec![out_num("x", Kind::I, 1.0, true, true)], vec!["aggregate", "ungrouped"], true, false);
    if let Some(n) = p.n {
        let nn = &n.name;
        push(
            "A2",
            format!("SELECT sum({nn}) AS x, count({nn}) AS y FROM {from}"),
            vec![out_num("x", n.kind, n.pv * 2.0, true, false), out_num("y", Kind::I, 1.0, true, true)],
            vec!["aggregate", "ungrouped"],
            true,
            false,
        );
        // A13: an ungrouped aggregation whose select list starts with items that contain no aggregate
        push(
            "A13",
            format!("SELECT 7 AS k, sum({nn}) AS x, count(*) AS y FROM {from}"),
            vec![out_num("k", Kind::I, 7.0, false, true), out_num("x", n.kind, n.pv * 2.0, true, false), out_num("y", Kind::I, 1.0, true, true)],
            vec!["aggregate", "ungrouped", "constant-before-aggregate"],
            true,
            false,
        );
        if let Some(k) = p.k {
            let kn = &k.name;
            push("A3", format!("SELECT {kn} AS x, count(*) AS y FROM {from} GROUP BY {kn}"), vec![out("x", k), out_num("y", Kind::I, 1.0, true, true)], vec!["aggregate", "grouped"], true, false);
            push(
                "A4",
                format!("SELECT {kn} AS x, sum({nn}) AS y, avg({nn}) AS z FROM {from} GROUP BY {kn}"),
                vec![out("x", k), out_num("y", n.kind, n.pv * 2.0, true, false), out_num("z", Kind::F, n.pv, true, false)],
                vec!["aggregate", "grouped"],
                true,
                false,
            );
            push("A5", format!("SELECT max({nn}) AS x FROM {from} GROUP BY {kn}"), vec![out_num("x", n.kind, n.pv, true, false)], vec!["aggregate", "grouped", "key-not-projected"], true, false);
            push(
                "A6",
                format!("SELECT {kn} AS x, min({nn}) AS y FROM {from} WHERE {nn} >= {} GROUP BY {kn} HAVING count(*) > 1", lit(n)),
                vec![out("x", k), out_num("y", n.kind, n.pv, true, false)],
                vec!["aggregate", "grouped", "filter", "having"],
                true,
                false,
            );
            if let Some(k2) = p.k2 {
                push("A10", format!("SELECT max({nn}) AS x, count(*) AS y FROM {from} GROUP BY {}", k2.name), vec![out_num("x", n.kind, n.pv, true, false), out_num("y", Kind::I, 1.0, true, true)], vec!["aggregate", "grouped", "key-not-projected"], true, false);
            }
            // A11: the alias of a non-injective expression shadows the input column named in GROUP BY (SQL: the input
            // column wins in GROUP BY); A12: GROUP BY an alias that is not an input column
            if n.kind != Kind::T {
                push(
                    "A11",
                    format!("SELECT CASE WHEN {nn} > {} THEN 1 ELSE 0 END AS {nn}, count(*) AS y FROM {from} GROUP BY {nn}", lit(n)),
                    vec![out_num(nn, Kind::I, 0.0, true, true), out_num("y", Kind::I, 1.0, true, true)],
                    vec!["aggregate", "grouped", "alias-shadows-column"],
                    true,
                    false,
                );
                // (the alias must not be the name of an input column: GROUP BY would then name that column and the
                // select item would not be grouped — not a valid query)
                let g = if s.cols.iter().any(|c| c.name == "g") { "h" } else { "g" };
                push(
                    "A12",
                    format!("SELECT abs({nn} - {}) AS {g}, count(*) AS y FROM {from} GROUP BY {g}", lit(n)),
                    vec![out_num(g, n.kind, 0.5, true, true), out_num("y", Kind::I, 1.0, true, true)],
                    vec!["aggregate", "grouped", "group-by-alias"],
                    true,
                    false,
                );
            }
            push("A7", format!("SELECT count(DISTINCT {kn}) AS x, sum(DISTINCT {nn}) AS y FROM {from}"), vec![out_num("x", Kind::I, 1.0, true, true), out_num("y", n.kind, n.pv * 2.0, true, false)], vec!["aggregate", "ungrouped", "distinct-aggregate"], true, false);
            if let Some(k2) = p.k2 {
                push(
                    "A8",
                    format!("SELECT {kn} AS x, {} AS y, count(*) AS z FROM {from} GROUP BY {kn}, {}", k2.name, k2.name),
                    vec![out("x", k), out("y", k2), out_num("z", Kind::I, 1.0, true, true)],
                    vec!["aggregate", "grouped", "two-keys"],
                    true,
                    false,
                );
            }
            push(
                "A9",
                format!("SELECT {kn} AS x, sum({nn}) + count(*) AS y FROM {from} GROUP BY {kn}"),
                vec![out("x", k), out_num("y", n.kind, n.pv * 2.0, true, false)],
                vec!["aggregate", "grouped", "mixed-aggregate-expression"],
                true,
                false,
            );
        }
    }
    // ---- DISTINCT
    if let Some(k) = p.k {
        push("D1", format!("SELECT DISTINCT {} AS x FROM {from}", k.name), vec![out("x", k)], vec!["distinct"], true, false);
        if let Some(n) = p.n {
            push("D2", format!("SELECT DISTINCT {} AS x, {} AS y FROM {from}", k.name, n.name), vec![out("x", k), out("y", n)], vec!["distinct"], true, false);
        }
    }
    // ---- ORDER BY / LIMIT / OFFSET (total orders only: every output column is a sort key)
    let desc = s.cols.iter().enumerate().map(|(i, c)| if i == 0 { format!("{} DESC", c.name) } else { c.name.clone() }).collect::<Vec<_>>().join(", ");
    push("O1", format!("SELECT {all} FROM {from} ORDER BY {all} LIMIT 2"), s.cols.clone(), vec!["orderby", "limit"], true, true);
    push("O2", format!("SELECT {all} FROM {from} ORDER BY {desc} LIMIT 1 OFFSET 1"), s.cols.clone(), vec!["orderby", "limit", "offset"], true, true);
    push("O3", format!("SELECT {all} FROM {from} ORDER BY {all} LIMIT 10 OFFSET 5"), s.cols.clone(), vec!["orderby", "limit", "offset-beyond-size"], true, true);
    if top {
        push("O4", format!("SELECT {all} FROM {from} ORDER BY {desc}"), s.cols.clone(), vec!["orderby"], true, false);
        push("O5", format!("SELECT {all} FROM {from} ORDER BY {all} LIMIT 0"), s.cols.clone(), vec!["orderby", "limit0"], true, true);
        if let (Some(n), Some(k)) = (p.n, p.k) {
            push(
                "O6",
                format!("SELECT -{} AS {}, {} FROM {from} ORDER BY {}, {}", n.name, n.name, k.name, n.name, k.name),
                vec![out_num(&n.name, n.kind, -n.pv, true, false), out(&k.name, k)],
                vec!["orderby", "alias-shadows-column"],
                true,
                false,
            );
        }
    }
    v
}

pub const JOIN_KINDS: [(&str, &str); 5] = [("JOIN", "inner"), ("LEFT JOIN", "left"), ("RIGHT JOIN", "right"), ("FULL JOIN", "full"), ("CROSS JOIN", "cross")];

/// every binary constructor applied to (a, b)
pub fn binary(a: &Rel, b: &Rel, rich: bool) -> Vec<Rel> {
    let mut v = vec![];
    let (_, fa) = source(a, "a", Form::Derived);
    let (_, fb) = source(b, "b", Form::Derived);
    // join keys: the first pair of key columns of the same kind
    let mut jk: Vec<(&Col, &Col)> = vec![];
    for ca in a.cols.iter().filter(|c| !c.dom.is_empty()) {
        for cb in b.cols.iter().filter(|c| c.dom == ca.dom) {
            jk.push((ca, cb));
        }
    }
    for ca in a.cols.iter().filter(|c| c.key) {
        for cb in b.cols.iter().filter(|c| c.key) {
            if ca.kind == cb.kind && (ca.kind == Kind::T || (ca.pv - cb.pv).abs() <= 1.0) && !jk.iter().any(|(x, y)| x.name == ca.name && y.name == cb.name) {
                jk.push((ca, cb));
            }
        }
    }
    let pa = picks(&a.cols);
    let pb = picks(&b.cols);
    if let Some((ka, kb)) = jk.first() {
        let mut ons: Vec<(&str, String)> = vec![("eq", format!("a.{} = b.{}", ka.name, kb.name))];
        if let Some(n) = pa.n {
            ons.push(("eq-and-cmp", format!("a.{} = b.{} AND a.{} > {}", ka.name, kb.name, n.name, lit(n))));
        }
        if let Some((ka2, kb2)) = jk.iter().find(|(x, y)| x.name != ka.name || y.name != kb.name) {
            ons.push(("eq-or-eq", format!("a.{} = b.{} OR a.{} = b.{}", ka.name, kb.name, ka2.name, kb2.name)));
        }
        if rich {
            // the second candidate pair alone: an equality between columns that are NOT each other's join partner
            // (users.id = orders.id): the rows it pairs belong to different owners
            if let Some((ka2, kb2)) = jk.iter().find(|(x, y)| x.name != ka.name || y.name != kb.name) {
                ons.push(("eq2", format!("a.{} = b.{}", ka2.name, kb2.name)));
            }
        }
        if rich && ka.kind != Kind::T {
            ons.push(("lt", format!("a.{} < b.{}", ka.name, kb.name)));
            ons.push(("eq-reversed", format!("b.{} = a.{}", kb.name, ka.name)));
        }
        for (kw, kind) in JOIN_KINDS {
            for (on_id, on) in &ons {
                if kind == "cross" && *on_id != "eq" {
                    continue;
                }
                let on_clause = if kind == "cross" { String::new() } else { format!(" ON {on}") };
                let from = format!("{fa} {kw} {fb}{on_clause}");
                let on_tag: &'static str = match *on_id {
                    "eq" => "on-eq",
                    "eq-and-cmp" => "on-eq-and-cmp",
                    "eq-or-eq" => "on-eq-or-eq",
                    "eq2" => "on-eq-other-pair",
                    "lt" => "on-lt",
                    _ => "on-eq-reversed",
                };
                let tags = vec!["join", kind, on_tag];
                let id = |sel: &str| format!("J.{kind}.{on_id}.{sel}({}, {})", a.term, b.term);
                // S1: one column of each side
                let (ca, cb) = (pa.k.or(pa.n).unwrap_or(&a.cols[0]), pb.n.or(pb.k).unwrap_or(&b.cols[0]));
                v.push(derived(id("s1"), format!("SELECT a.{} AS x, b.{} AS y FROM {from}", ca.name, cb.name), vec![out("x", ca), out("y", cb)], &[a, b], tags.clone(), true, false));
                if *on_id == "eq" || rich {
                    // S2: every column of both sides
                    let mut cols = vec![];
                    let mut items = vec![];
                    for (i, c) in a.cols.iter().enumerate() {
                        items.push(format!("a.{} AS l{}", c.name, i + 1));
                        cols.push(out(&format!("l{}", i + 1), c));
                    }
                    for (i, c) in b.cols.iter().enumerate() {
                        items.push(format!("b.{} AS r{}", c.name, i + 1));
                        cols.push(out(&format!("r{}", i + 1), c));
                    }
                    v.push(derived(id("s2"), format!("SELECT {} FROM {from}", items.join(", ")), cols, &[a, b], tags.clone(), true, false));
                    // S3: aggregate over the join
                    v.push(derived(id("s3"), format!("SELECT count(*) AS x FROM {from}"), vec![out_num("x", Kind::I, 1.0, true, true)], &[a, b], [tags.clone(), vec!["aggregate", "ungrouped"]].concat(), true, false));
                    if let (Some(k), Some(n)) = (pa.k, pb.n) {
                        v.push(derived(
                            id("s4"),
                            format!("SELECT a.{} AS x, sum(b.{}) AS y FROM {from} GROUP BY a.{}", k.name, n.name, k.name),
                            vec![out("x", k), out_num("y", n.kind, n.pv * 2.0, true, false)],
                            &[a, b],
                            [tags.clone(), vec!["aggregate", "grouped"]].concat(),
                            true,
                            false,
                        ));
                    }
                }
            }
        }
        // USING on a column of the same name in both
        if let Some(c) = a.cols.iter().find(|c| c.key && b.cols.iter().any(|d| d.name == c.name && d.kind == c.kind)) {
            for (kw, kind) in JOIN_KINDS.iter().filter(|(_, k)| *k != "cross") {
                let others_a: Vec<&Col> = a.cols.iter().filter(|x| x.name != c.name && !b.cols.iter().any(|d| d.name == x.name)).collect();
                let others_b: Vec<&Col> = b.cols.iter().filter(|x| x.name != c.name && !a.cols.iter().any(|d| d.name == x.name)).collect();
                let mut names = vec![c.name.clone()];
                let mut cols = vec![c.clone()];
                if let Some(x) = others_a.first() {
                    names.push(x.name.clone());
                    cols.push((*x).clone());
                }
                if let Some(x) = others_b.first() {
                    names.push(x.name.clone());
                    cols.push((*x).clone());
                }
                v.push(derived(
                    format!("J.{kind}.using.s1({}, {})", a.term, b.term),
                    format!("SELECT {} FROM {fa} {kw} {fb} USING ({})", names.join(", "), c.name),
                    cols,
                    &[a, b],
                    vec!["join", kind, "using"],
                    true,
                    false,
                ));
            }
        }
    }
    // set operations: same arity and kinds, same output names on both sides
    if a.cols.len() == b.cols.len() && a.cols.iter().zip(b.cols.iter()).all(|(x, y)| x.kind == y.kind && x.name == y.name) && a.table.is_none() && b.table.is_none() && !a.limit && !b.limit && !a.sql.starts_with("WITH") && !b.sql.starts_with("WITH") {
        for (op, tag) in [("UNION", "union"), ("UNION ALL", "unionall"), ("INTERSECT", "intersect"), ("EXCEPT", "except")] {
            v.push(derived(format!("S.{tag}({}, {})", a.term, b.term), format!("{} {op} {}", a.sql, b.sql), a.cols.clone(), &[a, b], vec!["setop", tag], true, false));
        }
    }
    v
}

/// level 1, unary: every unary constructor over every base table
pub fn level1_unary(top: bool) -> Vec<Rel> {
    let mut v = vec![];
    for t in &base_tables() {
        v.extend(unary(t, Form::Derived, top));
    }
    v
}

/// level 1, binary: every binary constructor (rich ON alphabet) over every ordered pair of base tables
pub fn level1_binary() -> Vec<Rel> {
    let base = base_tables();
    let mut v = vec![];
    for a in &base {
        for b in &base {
            v.extend(binary(a, b, true));
        }
    }
    v
}

fn starts_with_any(term: &str, prefixes: &[&str]) -> bool {
    prefixes.iter().any(|w| term.starts_with(w))
}

/// All terms of nesting depth <= `depth` (1..=3) over the alphabets above.
/// depth 1: every unary / binary constructor over base tables.
/// depth 2: every unary constructor, in both embedding forms (derived table, CTE), over every level-1 unary
///          term; every unary constructor over the representative level-1 joins (all kinds x {eq, eq-or-eq} x
///          {s1, s2} over users-orders, orders-users, users-ref, orders-items); every binary constructor over
///          (representative, base table) in both orders and over pairs of representatives (representatives =
///          {P2, P7, A3, A4, A5, D1, O1, A1} over users and orders; pairs restricted to {P7, A3, A5, O1}).
/// depth 3: {A1, A3, A4, P7, D1} over the depth-2 joins {inner, left, cross} x eq x {s1, s2}, and joins of those
///          with users / orders on either side.
pub fn compose(depth: usize) -> Vec<Rel> {
    let base = base_tables();
    let mut all: Vec<Rel> = level1_unary(true);
    all.extend(level1_binary());
    if depth >= 2 {
        let l1u = level1_unary(false);
        for r in &l1u {
            for form in [Form::Derived, Form::Cte] {
                all.extend(unary(r, form, false));
            }
        }
        let pairs = [("users", "orders"), ("orders", "users"), ("users", "ref"), ("orders", "items")];
        let l1b = level1_binary();
        for j in l1b.iter().filter(|j| {
            let t = &j.term;
            let pair_ok = pairs.iter().any(|(x, y)| t.ends_with(&format!("({x}, {y})")));
            pair_ok && (t.contains(".eq.s1(") || t.contains(".eq.s2(") || t.contains(".eq-or-eq.s1(") || t.contains(".eq-or-eq.s2(") || t.contains(".using.s1("))
        }) {
            all.extend(unary(j, Form::Derived, false));
        }
        let reps: Vec<Rel> = l1u.iter().filter(|r| starts_with_any(&r.term, &["P2(", "P7(", "A3(", "A4(", "A5(", "D1(", "O1(", "A1("]) && (r.term.ends_with("(users)") || r.term.ends_with("(orders)"))).cloned().collect();
        let mut l2_joins = vec![];
        for r in &reps {
            for t in base.iter().filter(|t| t.table != Some("items")) {
                l2_joins.extend(binary(r, t, false));
                l2_joins.extend(binary(t, r, false));
            }
        }
        let reps2: Vec<&Rel> = reps.iter().filter(|r| starts_with_any(&r.term, &["P7(", "A3(", "A5(", "O1("])).collect();
        for r in &reps2 {
            for r2 in &reps2 {
                l2_joins.extend(binary(r, r2, false));
            }
        }
        // set operations between level-1 unary terms of the same shape over different tables / constructors
        for r in &l1u {
            for r2 in &l1u {
                if r.term != r2.term && starts_with_any(&r.term, &["P2(", "P3(", "A3(", "D1(", "P7(", "P11("]) && starts_with_any(&r2.term, &["P2(", "P3(", "A3(", "D1(", "P9(", "P11("]) {
                    l2_joins.extend(binary(r, r2, false).into_iter().filter(|b| b.term.starts_with("S.")));
                }
            }
        }
        all.extend(l2_joins.iter().cloned());
        if depth >= 3 {
            let j_reps: Vec<&Rel> = l2_joins.iter().filter(|j| starts_with_any(&j.term, &["J.inner.eq.s1", "J.left.eq.s1", "J.cross.eq.s1", "J.inner.eq.s2"]) && !j.sql.starts_with("WITH")).collect();
            for j in &j_reps {
                for u in unary(j, Form::Derived, false) {
                    if starts_with_any(&u.term, &["A1(", "A3(", "A4(", "P7(", "D1("]) {
                        all.push(u);
                    }
                }
                for t in base.iter().filter(|t| matches!(t.table, Some("users") | Some("orders"))) {
                    for b in binary(j, t, false) {
                        if starts_with_any(&b.term, &["J.inner.eq.s1", "J.left.eq.s1", "J.inner.eq.s3", "J.inner.eq.s4"]) {
                            all.push(b);
                        }
                    }
                    for b in binary(t, j, false) {
                        if starts_with_any(&b.term, &["J.inner.eq.s1", "J.left.eq.s1"]) {
                            all.push(b);
                        }
                    }
                }
            }
            // set operations whose two arms reach their aggregation / projection at different depths:
            // r OP (SELECT <same columns> FROM (r2)) and the mirror image
            let arms: Vec<&Rel> = l1u.iter().filter(|r| starts_with_any(&r.term, &["A3(", "P2(", "D1(", "P11(", "A1("])).collect();
            for r2 in &arms {
                let names = r2.cols.iter().map(|c| c.name.clone()).collect::<Vec<_>>().join(", ");
                for r in &arms {
                    let compatible = r.cols.len() == r2.cols.len() && r.cols.iter().zip(r2.cols.iter()).all(|(x, y)| x.kind == y.kind && x.name == y.name);
                    if !compatible {
                        continue;
                    }
                    for (op, tag) in [("UNION", "union"), ("UNION ALL", "unionall"), ("INTERSECT", "intersect"), ("EXCEPT", "except")] {
                        // the second arm reads its relation through a CTE and one more projection
                        all.push(derived(
                            format!("S.{tag}({}, P1c({}))", r.term, r2.term),
                            format!("WITH c1 AS ({}) {} {op} SELECT {names} FROM c1", r2.sql, r.sql),
                            r.cols.clone(),
                            &[r, r2],
                            vec!["setop", tag, "arm-through-cte"],
                            true,
                            false,
                        ));
                        all.push(derived(
                            format!("S.{tag}(P1c({}), {})", r2.term, r.term),
                            format!("WITH c1 AS ({}) SELECT {names} FROM c1 {op} {}", r2.sql, r.sql),
                            r.cols.clone(),
                            &[r2, r],
                            vec!["setop", tag, "arm-through-cte"],
                            true,
                            false,
                        ));
                    }
                }
            }
            // set operations as sources
            for sop in l2_joins.iter().filter(|b| b.term.starts_with("S.")) {
                if sop.term.contains("(P11(") {
                    for t in base.iter().filter(|t| matches!(t.table, Some("users") | Some("orders"))) {
                        for b in binary(sop, t, false) {
                            if starts_with_any(&b.term, &["J.inner.eq.s1", "J.inner.eq.s2", "J.left.eq.s1", "J.inner.eq.s3"]) {
                                all.push(b);
                            }
                        }
                    }
                }
                for u in unary(sop, Form::Derived, false) {
                    if starts_with_any(&u.term, &["P1(", "A1(", "A3(", "P7(", "O1("]) {
                        all.push(u);
                    }
                }
            }
        }
    }
    if depth >= 3 {
        all.extend(shared_cte_terms(false));
    } else if depth >= 2 {
        all.extend(shared_cte_terms(true));
    }
    // de-duplicate by SQL text (the same text can be reached by two terms)
    let mut seen = std::collections::BTreeSet::new();
    all.retain(|r| seen.insert(r.sql.clone()));
    all
}

/// Terms in which ONE sub-query is read twice (a DAG, not a tree): `WITH c0 AS (r), c1 AS (U(c0)) SELECT .. FROM c1
/// JOIN c0 ..`, the mirror image, and `SELECT .. FROM c1 UNION SELECT .. FROM c0`. `small`: the quick subset.
pub fn shared_cte_terms(small: bool) -> Vec<Rel> {
    let l1u = level1_unary(false);
    let fams: &[&str] = if small { &["P2(", "P7(", "A3("] } else { &["P2(", "P7(", "A3(", "A4(", "D1(", "D2(", "P11(", "O1("] };
    let reps: Vec<&Rel> = l1u.iter().filter(|r| starts_with_any(&r.term, fams) && (r.term.ends_with("(users)") || r.term.ends_with("(orders)"))).collect();
    let pseudo = |name: &'static str, cols: &[Col], tables: &[&'static str], term: String| Rel {
        term,
        sql: String::new(),
        table: Some(name),
        cols: cols.to_vec(),
        tables: tables.to_vec(),
        depth: 0,
        subqueries: vec![],
        total_order: true,
        limit: false,
        tags: vec![],
    };
    let ufams: &[&str] = if small { &["P7(", "A3("] } else { &["P7(", "A3(", "A4(", "P2(", "D1(", "A1(", "O1("] };
    let mut out = vec![];
    for r in reps {
        let p0 = pseudo("c0", &r.cols, &r.tables, format!("c0:{}", r.term));
        for u in unary(&p0, Form::Derived, false).into_iter().filter(|u| starts_with_any(&u.term, ufams)) {
            let p1 = pseudo("c1", &u.cols, &r.tables, format!("c1:{}", u.term));
            let with = format!("WITH c0 AS ({}), c1 AS ({}) ", r.sql, u.sql);
            let mut bodies: Vec<Rel> = vec![];
            for b in binary(&p1, &p0, false).into_iter().chain(binary(&p0, &p1, false)) {
                let keep: &[&str] = if small { &["J.inner.eq.s1(", "J.left.eq.s2("] } else { &["J.inner.eq.s1(", "J.inner.eq.s2(", "J.left.eq.s1(", "J.left.eq.s2(", "J.full.eq.s1(", "J.cross.eq.s1(", "J.inner.eq.s3(", "J.inner.eq.s4("] };
                if starts_with_any(&b.term, keep) {
                    bodies.push(b);
                }
            }
            if u.cols.len() == r.cols.len() && u.cols.iter().zip(r.cols.iter()).all(|(x, y)| x.name == y.name && x.kind == y.kind) {
                let names = r.cols.iter().map(|c| c.name.clone()).collect::<Vec<_>>().join(", ");
                for (op, tag) in [("UNION", "union"), ("UNION ALL", "unionall"), ("EXCEPT", "except")] {
                    if small && tag != "union" {
                        continue;
                    }
                    let mut b = p1.clone();
                    b.term = format!("S.{tag}(c1:{}, c0:{})", u.term, r.term);
                    b.sql = format!("SELECT {names} FROM c1 {op} SELECT {names} FROM c0");
                    b.tags = vec!["setop", tag];
                    bodies.push(b.clone());
                    b.term = format!("S.{tag}(c0:{}, c1:{})", r.term, u.term);
                    b.sql = format!("SELECT {names} FROM c0 {op} SELECT {names} FROM c1");
                    bodies.push(b);
                }
            }
            for b in bodies {
                let mut tags = b.tags.clone();
                tags.push("shared-cte");
                out.push(Rel {
                    term: format!("W[{}]", b.term),
                    sql: format!("{with}{}", b.sql),
                    table: None,
                    cols: b.cols.clone(),
                    tables: r.tables.clone(),
                    depth: 3,
                    subqueries: vec![r.sql.clone()],
                    total_order: true,
                    limit: false,
                    tags,
                });
            }
        }
    }
    // self-joins / self-unions of ONE sub-query that itself joins an aggregating sub-query with a base table (a
    // sub-relation with several derivations of the same label, read twice)
    if !small {
        let base = base_tables();
        let aggs: Vec<&Rel> = l1u.iter().filter(|r| starts_with_any(&r.term, &["A3(", "A4(", "A1("]) && (r.term.ends_with("(users)") || r.term.ends_with("(orders)"))).collect();
        for a in aggs {
            for t in base.iter().filter(|t| matches!(t.table, Some("users") | Some("orders"))) {
                for j in binary(a, t, false).into_iter().chain(binary(t, a, false)).filter(|j| starts_with_any(&j.term, &["J.inner.eq.s1(", "J.cross.eq.s1(", "J.left.eq.s1("])) {
                    let p0 = pseudo("c0", &j.cols, &j.tables, format!("c0:{}", j.term));
                    let with = format!("WITH c0 AS ({}) ", j.sql);
                    let mut bodies: Vec<Rel> = binary(&p0, &p0, false).into_iter().filter(|b| starts_with_any(&b.term, &["J.inner.eq.s1(", "J.inner.eq.s2(", "J.cross.eq.s1(", "J.inner.eq.s3("])).collect();
                    let names = j.cols.iter().map(|c| c.name.clone()).collect::<Vec<_>>().join(", ");
                    let mut u = p0.clone();
                    u.term = format!("S.unionall(c0:{}, c0:{})", j.term, j.term);
                    u.sql = format!("SELECT {names} FROM c0 UNION ALL SELECT {names} FROM c0");
                    u.tags = vec!["setop", "unionall"];
                    bodies.push(u);
                    for b in bodies {
                        let mut tags = b.tags.clone();
                        tags.push("shared-cte");
                        tags.push("self-join-of-a-join");
                        out.push(Rel { term: format!("W[{}]", b.term), sql: format!("{with}{}", b.sql), table: None, cols: b.cols.clone(), tables: j.tables.clone(), depth: 3, subqueries: vec![j.sql.clone()], total_order: true, limit: false, tags });
                    }
                }
            }
        }
    }
    out
}

pub fn to_gen(r: &Rel) -> GenQuery {
    let top_is_order = r.term.starts_with('O');
    GenQuery {
        sql: r.sql.clone(),
        tables: r.tables.clone(),
        tags: r.tags.clone(),
        order: if top_is_order && r.total_order { Order::Total } else if top_is_order { Order::Partial } else { Order::None },
        limit: top_is_order && r.limit,
        term: Some(r.term.clone()),
        subqueries: r.subqueries.clone(),
        nondeterministic: !r.total_order,
        max_total_rows: usize::MAX,
    }
}
