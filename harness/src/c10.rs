//! C10 — WHERE / ON narrowing never drops a row that satisfies the predicate.
//! Exhaustive: predicates (depth <= 2/3 over an atom alphabet) x struct types from the grids x
//! every row of grid points in the type; joins: kinds x ON predicates x every (left,right) row pair.
use crate::common::*;
use crate::refm::*;
use qrlew::data_type::function::Function as _;
use qrlew::data_type::intervals::Intervals;
use qrlew::data_type::{value::Value, DataType, DataTyped};
use qrlew::expr::Expr;
use qrlew::relation::{Relation, Variant as _};
use qrlew::builder::Ready;
use serde_json::json;
use std::sync::Arc;

#[derive(Clone, Debug, PartialEq)]
enum T {
    Col(usize),
    Lit(Value),
    /// an arithmetic sub-term the narrowing does not understand: col + 1
    Plus1(usize),
    /// a unary function of a column (functions that are one-to-one but preserve neither values nor order are the
    /// interesting ones: a narrowing that "sees through" them writes the image of f(col) into col)
    Un(&'static str, usize),
}

const UNARY: [&str; 5] = ["neg", "exp", "abs", "cast_float", "times2"];

#[derive(Clone, Copy, Debug, PartialEq)]
enum Op {
    Gt,
    GtEq,
    Lt,
    LtEq,
    Eq,
    NotEq,
}

#[derive(Clone, Debug, PartialEq)]
enum P {
    Cmp(Op, T, T),
    In(usize, Vec<Value>),
    And(Box<P>, Box<P>),
    Or(Box<P>, Box<P>),
    Not(Box<P>),
    Const(bool),
    /// a boolean column used directly as a predicate
    BoolCol(usize),
    /// `t IS NULL` (false) / `t IS NOT NULL` (true) where t is a column or a term that absorbs NULLs
    NullTest(NT, bool),
}

/// the operand of a NULL test: a column, coalesce(col, col), coalesce(col, 0)
#[derive(Clone, Debug, PartialEq)]
enum NT {
    Col(usize),
    Coalesce(usize, usize),
    CoalesceLit(usize),
}

impl NT {
    fn expr(&self, names: &[Vec<String>]) -> Expr {
        match self {
            NT::Col(c) => col_expr(names, *c),
            NT::Coalesce(c, d) => Expr::coalesce(col_expr(names, *c), col_expr(names, *d)),
            NT::CoalesceLit(c) => Expr::coalesce(col_expr(names, *c), Expr::val(Value::integer(0))),
        }
    }
    fn show(&self, names: &[Vec<String>]) -> String {
        match self {
            NT::Col(c) => names[*c].join("."),
            NT::Coalesce(c, d) => format!("coalesce({}, {})", names[*c].join("."), names[*d].join(".")),
            NT::CoalesceLit(c) => format!("coalesce({}, 0)", names[*c].join(".")),
        }
    }
    fn shape(&self) -> &'static str {
        match self {
            NT::Col(_) => "col",
            NT::Coalesce(_, _) => "coalesce(col,col)",
            NT::CoalesceLit(_) => "coalesce(col,lit)",
        }
    }
    fn is_null(&self, row: &[Value]) -> bool {
        match self {
            NT::Col(c) => scalar(&row[*c]) == Sc::Null,
            NT::Coalesce(c, d) => scalar(&row[*c]) == Sc::Null && scalar(&row[*d]) == Sc::Null,
            NT::CoalesceLit(_) => false,
        }
    }
}

fn col_expr(names: &[Vec<String>], i: usize) -> Expr {
    let path = &names[i];
    if path.len() == 1 {
        Expr::col(path[0].clone())
    } else {
        Expr::qcol(path[0].clone(), path[1].clone())
    }
}

impl T {
    fn expr(&self, names: &[Vec<String>]) -> Expr {
        match self {
            T::Col(i) => col_expr(names, *i),
            T::Lit(v) => Expr::val(v.clone()),
            T::Plus1(i) => Expr::plus(col_expr(names, *i), Expr::val(Value::integer(1))),
            T::Un(f, i) => {
                let c = col_expr(names, *i);
                match *f {
                    "neg" => Expr::opposite(c),
                    "exp" => Expr::exp(c),
                    "abs" => Expr::abs(c),
                    "cast_float" => Expr::cast_as_float(c),
                    _ => Expr::multiply(c, Expr::val(Value::integer(2))),
                }
            }
        }
    }
    fn shape(&self) -> &'static str {
        match self {
            T::Col(_) => "col",
            T::Lit(_) => "lit",
            T::Plus1(_) => "col+1",
            T::Un(f, _) => match *f {
                "neg" => "-col",
                "exp" => "exp(col)",
                "abs" => "abs(col)",
                "cast_float" => "float(col)",
                _ => "col*2",
            },
        }
    }
    fn show(&self, names: &[Vec<String>]) -> String {
        match self {
            T::Col(i) => names[*i].join("."),
            T::Lit(v) => match v {
                Value::Text(t) => format!("'{}'", &**t),
                v => v.to_string(),
            },
            T::Plus1(i) => format!("({} + 1)", names[*i].join(".")),
            T::Un(f, i) => match *f {
                "neg" => format!("-{}", names[*i].join(".")),
                "times2" => format!("({} * 2)", names[*i].join(".")),
                "cast_float" => format!("CAST({} AS FLOAT)", names[*i].join(".")),
                f => format!("{f}({})", names[*i].join(".")),
            },
        }
    }
    fn cols(&self, out: &mut Vec<usize>) {
        match self {
            T::Col(i) | T::Plus1(i) | T::Un(_, i) => out.push(*i),
            _ => {}
        }
    }
}

impl P {
    fn expr(&self, names: &[Vec<String>]) -> Expr {
        match self {
            P::Cmp(op, l, r) => {
                let (l, r) = (l.expr(names), r.expr(names));
                match op {
                    Op::Gt => Expr::gt(l, r),
                    Op::GtEq => Expr::gt_eq(l, r),
                    Op::Lt => Expr::lt(l, r),
                    Op::LtEq => Expr::lt_eq(l, r),
                    Op::Eq => Expr::eq(l, r),
                    Op::NotEq => Expr::not_eq(l, r),
                }
            }
            P::In(c, vs) => Expr::in_list(col_expr(names, *c), Expr::list(vs.clone())),
            P::And(a, b) => Expr::and(a.expr(names), b.expr(names)),
            P::Or(a, b) => Expr::or(a.expr(names), b.expr(names)),
            P::Not(a) => Expr::not(a.expr(names)),
            P::Const(b) => Expr::val(*b),
            P::BoolCol(c) => col_expr(names, *c),
            P::NullTest(t, not) => {
                let e = Expr::is_null(t.expr(names));
                if *not {
                    Expr::not(e)
                } else {
                    e
                }
            }
        }
    }
    fn shape(&self) -> String {
        match self {
            P::Cmp(op, l, r) => format!("{:?}({},{})", op, l.shape(), r.shape()),
            P::In(_, _) => "In(col,list)".into(),
            P::And(a, b) => format!("And({},{})", a.shape(), b.shape()),
            P::Or(a, b) => format!("Or({},{})", a.shape(), b.shape()),
            P::Not(a) => format!("Not({})", a.shape()),
            P::Const(b) => format!("{b}"),
            P::BoolCol(_) => "boolcol".into(),
            P::NullTest(t, not) => format!("{}({})", if *not { "IsNotNull" } else { "IsNull" }, t.shape()),
        }
    }
    fn show(&self, names: &[Vec<String>]) -> String {
        match self {
            P::Cmp(op, l, r) => format!(
                "{} {} {}",
                l.show(names),
                match op {
                    Op::Gt => ">",
                    Op::GtEq => ">=",
                    Op::Lt => "<",
                    Op::LtEq => "<=",
                    Op::Eq => "=",
                    Op::NotEq => "<>",
                },
                r.show(names)
            ),
            P::In(c, vs) => format!("{} IN ({})", names[*c].join("."), vs.iter().map(|v| T::Lit(v.clone()).show(names)).collect::<Vec<_>>().join(", ")),
            P::And(a, b) => format!("({}) AND ({})", a.show(names), b.show(names)),
            P::Or(a, b) => format!("({}) OR ({})", a.show(names), b.show(names)),
            P::Not(a) => format!("NOT ({})", a.show(names)),
            P::Const(b) => format!("{b}"),
            P::BoolCol(c) => names[*c].join("."),
            P::NullTest(t, not) => format!("{} IS {}NULL", t.show(names), if *not { "NOT " } else { "" }),
        }
    }
    fn cols(&self, out: &mut Vec<usize>) {
        match self {
            P::Cmp(_, l, r) => {
                l.cols(out);
                r.cols(out)
            }
            P::In(c, _) => out.push(*c),
            P::And(a, b) | P::Or(a, b) => {
                a.cols(out);
                b.cols(out)
            }
            P::Not(a) => a.cols(out),
            P::BoolCol(c) => out.push(*c),
            P::NullTest(NT::Col(c), _) | P::NullTest(NT::CoalesceLit(c), _) => out.push(*c),
            P::NullTest(NT::Coalesce(c, d), _) => {
                out.push(*c);
                out.push(*d)
            }
            P::Const(_) => {}
        }
    }
}

// ---- independent three-valued evaluator -------------------------------------------------

#[derive(Clone, Debug, PartialEq)]
enum Sc {
    Null,
    Num(f64, Option<i64>),
    Txt(String),
    Bool(bool),
    Other,
}

fn scalar(v: &Value) -> Sc {
    match v {
        Value::Optional(o) => match o.as_ref() {
            None => Sc::Null,
            Some(x) => scalar(x),
        },
        Value::Integer(i) => Sc::Num(**i as f64, Some(**i)),
        Value::Float(f) => Sc::Num(**f, None),
        Value::Boolean(b) => Sc::Bool(**b),
        Value::Text(t) => Sc::Txt((**t).clone()),
        _ => Sc::Other,
    }
}

fn term(t: &T, row: &[Value]) -> Sc {
    match t {
        T::Col(i) => scalar(&row[*i]),
        T::Lit(v) => scalar(v),
        T::Plus1(i) => match scalar(&row[*i]) {
            Sc::Num(f, Some(i)) => Sc::Num(f + 1.0, i.checked_add(1)),
            Sc::Num(f, None) => Sc::Num(f + 1.0, None),
            Sc::Null => Sc::Null,
            _ => Sc::Other,
        },
        T::Un(f, i) => match scalar(&row[*i]) {
            Sc::Num(x, xi) => match *f {
                "neg" => Sc::Num(-x, xi.and_then(|v| v.checked_neg())),
                "exp" => Sc::Num(x.exp(), None),
                "abs" => Sc::Num(x.abs(), xi.and_then(|v| v.checked_abs())),
                "cast_float" => Sc::Num(x, None),
                _ => Sc::Num(x * 2.0, xi.and_then(|v| v.checked_mul(2))),
            },
            Sc::Null => Sc::Null,
            _ => Sc::Other,
        },
    }
}

/// Some(true/false) or None for unknown (NULL) / not evaluable
fn eval3(p: &P, row: &[Value]) -> Option<bool> {
    match p {
        P::Const(b) => Some(*b),
        P::BoolCol(c) => match scalar(&row[*c]) {
            Sc::Bool(b) => Some(b),
            _ => None,
        },
        P::NullTest(t, not) => Some(t.is_null(row) != *not),
        P::Cmp(op, l, r) => {
            let (a, b) = (term(l, row), term(r, row));
            let ord = match (&a, &b) {
                (Sc::Null, _) | (_, Sc::Null) => return None,
                (Sc::Num(_, Some(x)), Sc::Num(_, Some(y))) => x.partial_cmp(y),
                (Sc::Num(x, _), Sc::Num(y, _)) => x.partial_cmp(y),
                (Sc::Txt(x), Sc::Txt(y)) => x.partial_cmp(y),
                (Sc::Bool(x), Sc::Bool(y)) => x.partial_cmp(y),
                _ => return None,
            }?;
            use std::cmp::Ordering::*;
            Some(match op {
                Op::Gt => ord == Greater,
                Op::GtEq => ord != Less,
                Op::Lt => ord == Less,
                Op::LtEq => ord != Greater,
                Op::Eq => ord == Equal,
                Op::NotEq => ord != Equal,
            })
        }
        P::In(c, vs) => {
            let a = scalar(&row[*c]);
            if a == Sc::Null {
                return None;
            }
            Some(vs.iter().any(|v| match (&a, scalar(v)) {
                (Sc::Num(x, _), Sc::Num(y, _)) => *x == y,
                (Sc::Txt(x), Sc::Txt(y)) => *x == y,
                _ => false,
            }))
        }
        P::And(a, b) => match (eval3(a, row), eval3(b, row)) {
            (Some(false), _) | (_, Some(false)) => Some(false),
            (Some(true), Some(true)) => Some(true),
            _ => None,
        },
        P::Or(a, b) => match (eval3(a, row), eval3(b, row)) {
            (Some(true), _) | (_, Some(true)) => Some(true),
            (Some(false), Some(false)) => Some(false),
            _ => None,
        },
        P::Not(a) => eval3(a, row).map(|x| !x),
    }
}

/// The library's value of a predicate on a row, computed as `Expr::value` does (bottom-up through
/// `Function::value`), with the values of the atoms memoised per (atom, row).
struct LibEval<'a> {
    names: &'a [Vec<String>],
    rows: &'a [Value],
    cache: std::collections::HashMap<(String, usize), Option<Value>>,
}

impl<'a> LibEval<'a> {
    fn value(&mut self, p: &P, row: usize) -> Option<Value> {
        use qrlew::expr::function::Function as F;
        match p {
            P::And(a, b) | P::Or(a, b) => {
                let (x, y) = (self.value(a, row)?, self.value(b, row)?);
                let f = if matches!(p, P::And(_, _)) { F::And } else { F::Or };
                guarded(|| f.value(&[x, y])).ok()?.ok()
            }
            P::Not(a) => {
                let x = self.value(a, row)?;
                guarded(|| F::Not.value(&[x])).ok()?.ok()
            }
            atom => {
                let key = (atom.show(self.names), row);
                if let Some(v) = self.cache.get(&key) {
                    return v.clone();
                }
                let e = atom.expr(self.names);
                let v = guarded(|| e.value(&self.rows[row])).ok().and_then(|r| r.ok());
                self.cache.insert(key, v.clone());
                v
            }
        }
    }
    fn truth(&mut self, p: &P, row: usize) -> Option<bool> {
        match self.value(p, row).map(|v| scalar(&v)) {
            Some(Sc::Bool(b)) => Some(b),
            _ => None,
        }
    }
}

#[allow(dead_code)]
fn lib_true(e: &Expr, row: &Value) -> Result<Option<bool>, Panic> {
    guarded(|| e.value(row)).map(|r| match r {
        Ok(v) => match scalar(&v) {
            Sc::Bool(b) => Some(b),
            _ => None,
        },
        Err(_) => None,
    })
}

// ---- column types and their grid points -------------------------------------------------

#[derive(Clone)]
struct ColType {
    desc: String,
    kind: &'static str,
    data_type: DataType,
    points: Vec<Value>,
}

fn col_types(tier: Tier) -> Vec<ColType> {
    let mut out = vec![];
    let ipts = |l: &[[i64; 2]]| -> Vec<Value> {
        let mut p: Vec<i64> = vec![];
        for [a, b] in l {
            p.push(*a);
            p.push(*b);
            p.push(((*a as i128 + *b as i128) / 2) as i64);
        }
        p.sort();
        p.dedup();
        p.into_iter().map(Value::integer).collect()
    };
    let int_lists: Vec<Vec<[i64; 2]>> = vec![
        vec![[-3, 5]],
        vec![[0, 2]],
        vec![[0, 0]],
        vec![[-3, -1], [2, 5]],
        vec![[0, 0], [2, 2], [5, 5]],
        vec![[i64::MIN, i64::MAX]],
    ];
    for l in &int_lists {
        let t = DataType::Integer(Intervals::from_intervals(l));
        out.push(ColType { desc: t.to_string(), kind: "int", data_type: t, points: ipts(l) });
    }
    let fpts = |l: &[[f64; 2]]| -> Vec<Value> {
        let mut p: Vec<f64> = vec![];
        for [a, b] in l {
            p.push(*a);
            p.push(*b);
            p.push(a / 2.0 + b / 2.0);
        }
        p.sort_by(|x, y| x.partial_cmp(y).unwrap());
        p.dedup();
        p.into_iter().map(Value::float).collect()
    };
    let float_lists: Vec<Vec<[f64; 2]>> = vec![vec![[-2.5, 2.5]], vec![[0.0, 0.5]], vec![[0.5, 0.5]], vec![[-2.5, -0.5], [1.0, 5.0]]];
    for l in &float_lists {
        let t = DataType::Float(Intervals::from_intervals(l));
        out.push(ColType { desc: t.to_string(), kind: "float", data_type: t, points: fpts(l) });
    }
    // optional columns
    for base in [0usize, 3, 6] {
        let b = out[base].clone();
        let mut pts = vec![Value::none()];
        pts.extend(b.points.iter().cloned().map(Value::some));
        out.push(ColType { desc: format!("option({})", b.desc), kind: if b.kind == "int" { "opt-int" } else { "opt-float" }, data_type: DataType::optional(b.data_type.clone()), points: pts });
    }
    // text
    let tv = |v: &[&str]| DataType::text_values(v.iter().map(|s| s.to_string()).collect::<Vec<_>>());
    out.push(ColType { desc: "str{A, B, b}".into(), kind: "text", data_type: tv(&["A", "B", "b"]), points: ["A", "B", "b"].iter().map(|s| Value::text(*s)).collect() });
    out.push(ColType {
        desc: "str[A b]".into(),
        kind: "text",
        data_type: DataType::text_interval("A".to_string(), "b".to_string()),
        points: ["A", "B", "Z", "b"].iter().map(|s| Value::text(*s)).collect(),
    });
    out.push(ColType { desc: "bool".into(), kind: "bool", data_type: DataType::boolean(), points: vec![Value::boolean(false), Value::boolean(true)] });
    // the same set spelled as an enumeration of values (what CASE .. THEN TRUE ELSE FALSE or a cast of {0,1} produce)
    out.push(ColType { desc: "bool{false,true}".into(), kind: "bool", data_type: DataType::Boolean(Intervals::from_values([false, true])), points: vec![Value::boolean(false), Value::boolean(true)] });
    out.push(ColType { desc: "bool{true}".into(), kind: "bool", data_type: DataType::boolean_value(true), points: vec![Value::boolean(true)] });
    if tier == Tier::Thorough {
        out.push(ColType { desc: "option(bool)".into(), kind: "opt-bool", data_type: DataType::optional(DataType::boolean()), points: vec![Value::boolean(false), Value::boolean(true), Value::none()] });
    }
    out
}

fn atoms(kinds: &[&'static str], tier: Tier) -> Vec<P> {
    // kinds[i] is the kind of column i
    let num: Vec<usize> = (0..kinds.len()).filter(|i| matches!(kinds[*i], "int" | "float" | "opt-int" | "opt-float")).collect();
    let txt: Vec<usize> = (0..kinds.len()).filter(|i| kinds[*i] == "text").collect();
    let ops = [Op::Gt, Op::GtEq, Op::Lt, Op::LtEq, Op::Eq, Op::NotEq];
    let lits: Vec<Value> = match tier {
        Tier::Quick => vec![Value::integer(0), Value::float(0.5), Value::integer(2)],
        Tier::Thorough => vec![Value::integer(0), Value::float(0.5), Value::integer(2), Value::integer(-1), Value::float(-0.5)],
    };
    let mut out = vec![];
    for &c in &num {
        for op in ops {
            for l in &lits {
                out.push(P::Cmp(op, T::Col(c), T::Lit(l.clone())));
                out.push(P::Cmp(op, T::Lit(l.clone()), T::Col(c)));
            }
        }
        out.push(P::In(c, vec![Value::integer(0), Value::integer(2)]));
        out.push(P::In(c, vec![Value::float(0.5)]));
        out.push(P::Cmp(Op::Gt, T::Plus1(c), T::Lit(Value::integer(2))));
        out.push(P::Cmp(Op::Lt, T::Lit(Value::integer(0)), T::Plus1(c)));
        out.push(P::Cmp(Op::Eq, T::Plus1(c), T::Lit(Value::integer(1))));
    }
    // comparisons whose operand is a unary function of a column, both operand orders, and against another column
    for &c in &num {
        for f in UNARY.iter().copied().take(tier.pick(3, 5)) {
            for op in [Op::Gt, Op::LtEq, Op::Lt, Op::GtEq, Op::Eq] {
                for l in lits.iter().take(tier.pick(2, 3)) {
                    out.push(P::Cmp(op, T::Un(f, c), T::Lit(l.clone())));
                    out.push(P::Cmp(op, T::Lit(l.clone()), T::Un(f, c)));
                }
            }
            for &d in &num {
                if c != d {
                    out.push(P::Cmp(Op::GtEq, T::Un(f, c), T::Col(d)));
                    out.push(P::Cmp(Op::Lt, T::Col(d), T::Un(f, c)));
                }
            }
        }
    }
    for &c in &num {
        for &d in &num {
            if c != d {
                for op in ops {
                    out.push(P::Cmp(op, T::Col(c), T::Col(d)));
                }
                out.push(P::Cmp(Op::Lt, T::Col(c), T::Plus1(d)));
            }
        }
    }
    for &c in &txt {
        for op in ops {
            out.push(P::Cmp(op, T::Col(c), T::Lit(Value::text("B"))));
            out.push(P::Cmp(op, T::Lit(Value::text("B")), T::Col(c)));
        }
        out.push(P::In(c, vec![Value::text("A"), Value::text("b")]));
        out.push(P::In(c, vec![Value::text("Q")]));
    }
    for c in (0..kinds.len()).filter(|i| matches!(kinds[*i], "bool" | "opt-bool")) {
        out.push(P::BoolCol(c));
    }
    // NULL tests of a column and of terms that absorb NULLs (a NULL operand does not make them NULL)
    for &c in &num {
        for not in [true, false] {
            out.push(P::NullTest(NT::Col(c), not));
            out.push(P::NullTest(NT::CoalesceLit(c), not));
            for &d in &num {
                if c != d {
                    out.push(P::NullTest(NT::Coalesce(c, d), not));
                }
            }
        }
    }
    out.push(P::Const(true));
    out.push(P::Const(false));
    out
}

fn predicates(kinds: &[&'static str], tier: Tier) -> Vec<P> {
    let a = atoms(kinds, tier);
    let mut out = a.clone();
    for x in &a {
        out.push(P::Not(Box::new(x.clone())));
    }
    // depth 2: all pairs of a thinned atom list (every 3rd in quick)
    let step = tier.pick(6, 2);
    let is_fun = |p: &P| matches!(p, P::Cmp(_, T::Un(_, _), _) | P::Cmp(_, _, T::Un(_, _)));
    let plain: Vec<P> = a.iter().filter(|p| !is_fun(p)).cloned().collect();
    let funs: Vec<P> = a.iter().filter(|p| is_fun(p)).cloned().collect();
    let thin: Vec<P> = plain.iter().step_by(step).cloned().collect();
    for x in &thin {
        for y in &thin {
            out.push(P::And(Box::new(x.clone()), Box::new(y.clone())));
            out.push(P::Or(Box::new(x.clone()), Box::new(y.clone())));
        }
    }
    // NOT over a connective and NOT NOT (seed C10-5: NOT pushed through AND / OR without swapping the connective)
    let thin2: Vec<P> = thin.iter().step_by(tier.pick(2, 1)).cloned().collect();
    for x in &thin2 {
        out.push(P::Not(Box::new(P::Not(Box::new(x.clone())))));
        for y in &thin2 {
            out.push(P::Not(Box::new(P::And(Box::new(x.clone()), Box::new(y.clone())))));
            out.push(P::Not(Box::new(P::Or(Box::new(x.clone()), Box::new(y.clone())))));
        }
    }
    // a plain atom combined with a function atom (every 7th / 3rd of them), both orders
    let fthin: Vec<P> = funs.iter().step_by(tier.pick(7, 3)).cloned().collect();
    for x in thin.iter().step_by(tier.pick(3, 1)) {
        for y in &fthin {
            out.push(P::And(Box::new(x.clone()), Box::new(y.clone())));
            out.push(P::Or(Box::new(y.clone()), Box::new(x.clone())));
        }
    }
    if tier == Tier::Thorough {
        // depth 3 on a small atom list
        let small: Vec<P> = plain.iter().step_by(17).cloned().collect();
        for x in &small {
            for y in &small {
                for z in &small {
                    out.push(P::Or(Box::new(P::And(Box::new(x.clone()), Box::new(y.clone()))), Box::new(z.clone())));
                    out.push(P::And(Box::new(P::Or(Box::new(x.clone()), Box::new(y.clone()))), Box::new(P::Not(Box::new(z.clone())))));
                }
            }
        }
    }
    out
}

fn rows(cols: &[&ColType]) -> Vec<Vec<Value>> {
    let mut out: Vec<Vec<Value>> = vec![vec![]];
    for c in cols {
        let mut next = vec![];
        for r in &out {
            for p in &c.points {
                let mut r2 = r.clone();
                r2.push(p.clone());
                next.push(r2);
            }
        }
        out = next;
    }
    out
}

fn arm_of(p: &P) -> String {
    // which narrowing arm of the library the top-level node exercises
    match p {
        P::Cmp(op, l, r) => format!("{:?}:{}-{}", op, l.shape(), r.shape()),
        P::In(_, _) => "InList".into(),
        P::And(_, _) => "And".into(),
        P::Or(_, _) => "Or".into(),
        P::Not(_) => "Not".into(),
        P::Const(_) => "Const".into(),
        P::BoolCol(_) => "BoolCol".into(),
        P::NullTest(t, not) => format!("{}:{}", if *not { "IsNotNull" } else { "IsNull" }, t.shape()),
    }
}

fn explore_filter(cols: Vec<ColType>, tier: Tier, r: &mut Report) {
    let names: Vec<Vec<String>> = ["a", "b", "c"].iter().take(cols.len()).map(|s| vec![s.to_string()]).collect();
    let kinds: Vec<&'static str> = cols.iter().map(|c| c.kind).collect();
    let case_id = format!("filter/types={}", cols.iter().map(|c| c.desc.clone()).collect::<Vec<_>>().join(";"));
    let st = DataType::structured(names.iter().zip(cols.iter()).map(|(n, c)| (n[0].clone(), c.data_type.clone())).collect::<Vec<_>>());
    let col_refs: Vec<&ColType> = cols.iter().collect();
    let all_rows = rows(&col_refs);
    let row_values: Vec<Value> = all_rows
        .iter()
        .map(|row| Value::structured(names.iter().zip(row.iter()).map(|(n, v)| (n[0].clone(), v.clone())).collect::<Vec<_>>()))
        .collect();
    let mut lib_eval = LibEval { names: &names, rows: &row_values, cache: Default::default() };
    for p in predicates(&kinds, tier) {
        let e = p.expr(&names);
        let filtered = guarded(|| st.filter(&e));
        r.reach("narrowing_arms", &arm_of(&p));
        let mut any_true = false;
        for (ri, (row, rv)) in all_rows.iter().zip(row_values.iter()).enumerate() {
            r.evaluations += 1;
            let mine = eval3(&p, row);
            let lib = lib_eval.truth(&p, ri);
            if lib != mine && mine.is_some() {
                r.add_count("side_report_evaluator_disagreements", 1);
            }
            // the premise: the predicate evaluates to true on the row (by the library's own
            // evaluator; the independent evaluator must not say false)
            let holds = lib == Some(true) || (lib.is_none() && mine == Some(true));
            if !holds {
                continue;
            }
            any_true = true;
            let ok = match &filtered {
                Ok(t) => ref_member(t, rv),
                Err(_) => false,
            };
            if !ok {
                let mut used = vec![];
                p.cols(&mut used);
                used.sort();
                used.dedup();
                let sig = match &filtered {
                    Ok(_) => format!("filter pred={} cols=({})", p.shape(), used.iter().map(|i| kinds[*i]).collect::<Vec<_>>().join(",")),
                    Err(pn) => format!("filter panic@{}", pn.site()),
                };
                r.violation(
                    sig,
                    &case_id,
                    json!({"predicate": p.show(&names), "input_type": st.to_string(), "row": rv.to_string(),
                           "narrowed_type": filtered.as_ref().map(|t| t.to_string()).unwrap_or_else(|p| format!("panic {}: {}", p.site(), p.message)),
                           "library_evaluates_to": format!("{:?}", lib), "independent_evaluator": format!("{:?}", mine)}),
                );
            }
        }
        if any_true {
            r.distinct_nontrivial += 1;
            if r.samples.is_empty() {
                r.sample(json!({"predicate": p.show(&names), "input_type": st.to_string(), "narrowed_type": filtered.as_ref().map(|t| t.to_string()).unwrap_or_default(), "rows": all_rows.len()}));
            }
        }
    }
}

// ---- joins -----------------------------------------------------------------------------

fn table(name: &str, cols: &[(&str, &ColType)]) -> Relation {
    use qrlew::relation::{Field, Schema};
    let schema = Schema::new(cols.iter().map(|(n, c)| Field::new(n.to_string(), c.data_type.clone(), None)).collect());
    Relation::table().name(name).schema(schema).size(10).build()
}

fn explore_join(lc: Vec<ColType>, rc: Vec<ColType>, tier: Tier, r: &mut Report) {
    let case_id = format!("join/types={}|{}", lc.iter().map(|c| c.desc.clone()).collect::<Vec<_>>().join(";"), rc.iter().map(|c| c.desc.clone()).collect::<Vec<_>>().join(";"));
    let lt = table("l", &[("a", &lc[0]), ("b", &lc[1])]);
    let rt = table("r", &[("a", &rc[0]), ("c", &rc[1])]);
    let names: Vec<Vec<String>> = vec![
        vec!["_LEFT_".into(), "a".into()],
        vec!["_LEFT_".into(), "b".into()],
        vec!["_RIGHT_".into(), "a".into()],
        vec!["_RIGHT_".into(), "c".into()],
    ];
    let all: Vec<&ColType> = lc.iter().chain(rc.iter()).collect();
    let kinds: Vec<&'static str> = all.iter().map(|c| c.kind).collect();
    let lrows = rows(&lc.iter().collect::<Vec<_>>());
    let rrows = rows(&rc.iter().collect::<Vec<_>>());
    let mut preds = atoms(&kinds, tier);
    // keep the atoms that relate the two sides or filter one side, and a few conjunctions
    let base: Vec<P> = preds.iter().step_by(tier.pick(5, 2)).cloned().collect();
    let eq = P::Cmp(Op::Eq, T::Col(0), T::Col(2));
    preds = vec![eq.clone()];
    for b in &base {
        preds.push(b.clone());
        preds.push(P::And(Box::new(eq.clone()), Box::new(b.clone())));
        preds.push(P::Or(Box::new(eq.clone()), Box::new(b.clone())));
    }
    let struct_value = |l: &Vec<Value>, rr: &Vec<Value>| {
        Value::structured([
            ("_LEFT_", Value::structured([("a", l[0].clone()), ("b", l[1].clone())])),
            ("_RIGHT_", Value::structured([("a", rr[0].clone()), ("c", rr[1].clone())])),
        ])
    };
    // all (left,right) pairs as struct values, indexed li * rrows.len() + ri
    let pair_values: Vec<Value> = lrows.iter().flat_map(|l| rrows.iter().map(|rr| struct_value(l, rr)).collect::<Vec<_>>()).collect();
    let mut lib_eval = LibEval { names: &names, rows: &pair_values, cache: Default::default() };
    for p in preds {
        let e = p.expr(&names);
        for kind in ["inner", "left", "right", "full", "cross"] {
            let (lt, rt, e2) = (lt.clone(), rt.clone(), e.clone());
            let built = guarded(move || {
                let b = Relation::join().left(lt).right(rt);
                let j: Relation = match kind {
                    "inner" => b.inner(e2).build(),
                    "left" => b.left_outer(e2).build(),
                    "right" => b.right_outer(e2).build(),
                    "full" => b.full_outer(e2).build(),
                    _ => b.cross().build(),
                };
                j
            });
            r.reach("join_kinds", kind);
            let fields: Vec<DataType> = match &built {
                Ok(j) => j.schema().iter().map(|f| f.data_type()).collect(),
                Err(pn) => {
                    r.violation(format!("join panic@{} kind={kind}", pn.site()), &case_id, json!({"on": p.show(&names), "panic": pn.message}));
                    continue;
                }
            };
            let check = |row: Vec<Value>, what: &str, r: &mut Report| {
                for (i, (t, v)) in fields.iter().zip(row.iter()).enumerate() {
                    if !ref_member(t, v) {
                        r.violation(
                            format!("join kind={kind} on={} {what} field={}", p.shape(), ["l.a", "l.b", "r.a", "r.c"][i]),
                            &case_id,
                            json!({"on": p.show(&names), "kind": kind, "field_types": fields.iter().map(|t| t.to_string()).collect::<Vec<_>>(),
                                   "row": row.iter().map(|v| v.to_string()).collect::<Vec<_>>(), "what": what,
                                   "left_types": lc.iter().map(|c| c.desc.clone()).collect::<Vec<_>>(), "right_types": rc.iter().map(|c| c.desc.clone()).collect::<Vec<_>>()}),
                        );
                        break;
                    }
                }
            };
            let mut any = false;
            for (li, l) in lrows.iter().enumerate() {
                for (ri, rr) in rrows.iter().enumerate() {
                    r.evaluations += 1;
                    let joined: Vec<Value> = l.iter().chain(rr.iter()).cloned().collect();
                    let matches = if kind == "cross" {
                        true
                    } else {
                        let lib = lib_eval.truth(&p, li * rrows.len() + ri);
                        let mine = eval3(&p, &joined);
                        lib == Some(true) || (lib.is_none() && mine == Some(true))
                    };
                    if matches {
                        any = true;
                        check(joined, "matching-pair", r);
                    }
                }
            }
            if any {
                r.distinct_nontrivial += 1;
            }
            // preserved sides of outer joins: every row of the preserved side, padded with NULLs
            if kind == "left" || kind == "full" {
                for l in &lrows {
                    r.evaluations += 1;
                    check(vec![l[0].clone(), l[1].clone(), Value::none(), Value::none()], "preserved-left-row", r);
                }
            }
            if kind == "right" || kind == "full" {
                for rr in &rrows {
                    r.evaluations += 1;
                    check(vec![Value::none(), Value::none(), rr[0].clone(), rr[1].clone()], "preserved-right-row", r);
                }
            }
        }
    }
}

enum Work {
    Filter(Vec<ColType>),
    Join(Vec<ColType>, Vec<ColType>),
}

pub fn run(ctx: &Ctx) -> Report {
    let ct = col_types(ctx.tier);
    let numeric: Vec<&ColType> = ct.iter().filter(|c| matches!(c.kind, "int" | "float" | "opt-int" | "opt-float")).collect();
    let third: Vec<&ColType> = ct.iter().filter(|c| matches!(c.kind, "text" | "opt-int" | "bool" | "opt-bool")).collect();
    let mut work: Vec<(String, Work)> = vec![];
    // struct types: (numeric, numeric, third); quick thins the numeric x numeric product
    let step = ctx.tier.pick(9, 3);
    let mut k = 0;
    for a in &numeric {
        for b in &numeric {
            for c in &third {
                k += 1;
                if k % step != 0 {
                    continue;
                }
                let cols = vec![(*a).clone(), (*b).clone(), (*c).clone()];
                let id = format!("filter/types={}", cols.iter().map(|c| c.desc.clone()).collect::<Vec<_>>().join(";"));
                work.push((id, Work::Filter(cols)));
            }
        }
    }
    let jn: Vec<&ColType> = numeric.iter().step_by(ctx.tier.pick(3, 1)).cloned().collect();
    for la in &jn {
        for ra in &jn {
            let lc = vec![(*la).clone(), numeric[1].clone()];
            let rc = vec![(*ra).clone(), numeric[7 % numeric.len()].clone()];
            let id = format!("join/types={}|{}", lc.iter().map(|c| c.desc.clone()).collect::<Vec<_>>().join(";"), rc.iter().map(|c| c.desc.clone()).collect::<Vec<_>>().join(";"));
            work.push((id, Work::Join(lc, rc)));
        }
    }
    let n = work.len();
    let work: Vec<(String, Work)> = work.into_iter().filter(|(id, _)| ctx.wants(id)).collect();
    let tier = ctx.tier;
    let mut report = par_reports_isolated(work, "exploration", move |(_, w), r| match w {
        Work::Filter(cols) => {
            r.add_count("struct_types", 1);
            explore_filter(cols, tier, r)
        }
        Work::Join(l, rr) => {
            r.add_count("join_type_pairs", 1);
            explore_join(l, rr, tier, r)
        }
    });
    report.set("work_units_total", n as u64);
    report.rule = "predicates = atoms (col OP lit in both orders, col OP col, IN lists, col+1 OP lit as an unsupported sub-term, text comparisons, constants), NOT atom, NOT NOT atom, all AND/OR pairs, NOT over AND/OR pairs (thorough: depth 3) x struct types of 3 columns from the grids (intervals, unions, value sets, optional, int/float, text) x every row of grid points; joins: 5 kinds x ON predicates x every (left,right) row pair + NULL-padded preserved rows. oracle: predicate true on the row => row in DataType::filter(type) / in the Join's field types (reference membership). non-trivial = (predicate,type) pairs with at least one satisfying row".into();
    report.assumptions = vec![
        "truth of a predicate on a row is the library's Expr::value (an independent three-valued evaluator must not contradict it; disagreements are counted in side_report_evaluator_disagreements)".into(),
    ];
    let _ = Arc::new(0);
    report
}
