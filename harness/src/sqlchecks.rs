//! SQL-level checks sharing the SQLite engine: C07 (schemas and sizes), C08 (SQL -> Relation -> SQL),
//! C14 (unique columns), C15(b) (ambiguous names).
use crate::common::*;
use crate::refm::ref_member;
use crate::sqlgen::{queries, queries_plus, GenQuery, Order};
use crate::sqlite::{same_multiset, same_sequence, Cell, Engine, Table};
use crate::world::{show_db, Db, World};
use qrlew::builder::{Ready, With, WithIterator};
use qrlew::data_type::{value::Value, DataType, DataTyped};
use qrlew::hierarchy::Hierarchy;
use qrlew::relation::{Constraint, Relation, Variant as _};
use qrlew::{ast, sql::parse};
use serde_json::json;
use std::collections::BTreeMap;
use std::sync::Arc;

#[derive(Clone)]
pub struct CompiledOk {
    /// structural features of the relation (see features.rs)
    pub features: Vec<String>,
    pub relation: Arc<Relation>,
    pub rendered: String,
    pub fields: Vec<(String, DataType, Option<Constraint>)>,
    pub size: Vec<[i64; 2]>,
}

#[derive(Clone)]
pub enum Outcome {
    Ok(CompiledOk),
    Err(String),
    Panic(Panic),
}

pub fn compile(sql: &str, relations: &Hierarchy<Arc<Relation>>) -> Outcome {
    let r = guarded(|| -> Result<CompiledOk, String> {
        let query = parse(sql).map_err(|e| format!("parse: {e}"))?;
        let relation = Relation::try_from(query.with(relations)).map_err(|e| format!("relation: {e}"))?;
        let rendered = ast::Query::from(&relation).to_string();
        let fields = relation.schema().iter().map(|f| (f.name().to_string(), f.data_type(), f.constraint())).collect();
        let size = relation.size().iter().cloned().collect();
        Ok(CompiledOk { features: crate::features::features(&relation), relation: Arc::new(relation), rendered, fields, size })
    });
    match r {
        Ok(Ok(c)) => Outcome::Ok(c),
        Ok(Err(e)) => Outcome::Err(e.chars().take(300).collect()),
        Err(p) => Outcome::Panic(p),
    }
}

pub fn cell_value(c: &Cell) -> Value {
    match c {
        Cell::Null => Value::none(),
        Cell::Int(i) => Value::integer(*i),
        Cell::Real(f) => Value::float(*f),
        Cell::Text(s) => Value::text(s.clone()),
        Cell::Blob(b) => Value::bytes(b.clone()),
    }
}

/// names of the output columns that SQL itself defines (aliases and plain columns), None where the
/// name of the original is engine specific (unaliased expressions, wildcards over joins)
fn defined_names(sql: &str) -> Vec<Option<String>> {
    let q = match parse(sql) {
        Ok(q) => q,
        Err(_) => return vec![],
    };
    fn of_body(b: &ast::SetExpr) -> Vec<Option<String>> {
        match b {
            ast::SetExpr::Select(s) => s
                .projection
                .iter()
                .map(|it| match it {
                    ast::SelectItem::ExprWithAlias { alias, .. } => Some(alias.value.clone()),
                    ast::SelectItem::UnnamedExpr(ast::Expr::Identifier(i)) => Some(i.value.clone()),
                    ast::SelectItem::UnnamedExpr(ast::Expr::CompoundIdentifier(p)) => p.last().map(|i| i.value.clone()),
                    _ => None,
                })
                .collect(),
            ast::SetExpr::SetOperation { left, .. } => of_body(left),
            ast::SetExpr::Query(q) => of_body(&q.body),
            _ => vec![],
        }
    }
    of_body(&q.body)
}

/// the outermost select list contains `*` or `t.*` (decided on the parsed text, not on the characters:
/// `price * 2` is not a wildcard)
fn has_wildcard(sql: &str) -> bool {
    fn of_body(b: &ast::SetExpr) -> bool {
        match b {
            ast::SetExpr::Select(s) => s.projection.iter().any(|it| matches!(it, ast::SelectItem::Wildcard(_) | ast::SelectItem::QualifiedWildcard(_, _))),
            ast::SetExpr::SetOperation { left, .. } => of_body(left),
            ast::SetExpr::Query(q) => of_body(&q.body),
            _ => false,
        }
    }
    match parse(sql) {
        Ok(q) => of_body(&q.body),
        Err(_) => sql.contains("SELECT *"),
    }
}

/// SELECT * over a USING / NATURAL join: the standard (and PostgreSQL, which qrlew follows) puts the
/// merged columns first, SQLite keeps the left table's order. Returns, for each declared field,
/// the index of the SQLite column of the same name (identity when not applicable).
fn star_using_permutation(gq: &GenQuery, sqlite_cols: &[String], declared: &[String]) -> Vec<usize> {
    let ident: Vec<usize> = (0..declared.len()).collect();
    if !((gq.tags.contains(&"using") || gq.tags.contains(&"natural")) && has_wildcard(&gq.sql)) || sqlite_cols.len() != declared.len() {
        return ident;
    }
    let perm: Option<Vec<usize>> = declared.iter().map(|n| sqlite_cols.iter().position(|m| m == n)).collect();
    match perm {
        Some(p) => {
            let mut u = p.clone();
            u.sort();
            u.dedup();
            if u.len() == p.len() {
                p
            } else {
                ident
            }
        }
        None => ident,
    }
}

fn strip_limit(sql: &str) -> Option<String> {
    let mut q = parse(sql).ok()?;
    q.limit = None;
    q.offset = None;
    Some(q.to_string())
}

struct Prepared {
    gq: GenQuery,
    outcome: Outcome,
    names: Vec<Option<String>>,
    unlimited: Option<String>,
    star: bool,
}

/// groups of queries by the set of tables they read
fn group_by_tables(qs: Vec<Prepared>) -> Vec<(Vec<&'static str>, Vec<Prepared>)> {
    let mut m: BTreeMap<Vec<&'static str>, Vec<Prepared>> = BTreeMap::new();
    for p in qs {
        let mut t = p.gq.tables.clone();
        t.sort();
        m.entry(t).or_default().push(p);
    }
    m.into_iter().collect()
}

fn new_engine(world: &World) -> Engine {
    let e = Engine::new();
    e.conn.set_prepared_statement_cache_capacity(8192);
    // base tables are created once; instances are loaded by DELETE + INSERT
    let empty: Db = world.tables.iter().map(|t| (t.name, vec![])).collect();
    e.load(&world.load_spec(&empty)).expect("create tables");
    e
}

fn fill(e: &Engine, world: &World, db: &Db) {
    let mut sql = String::new();
    for t in &world.tables {
        sql.push_str(&format!("DELETE FROM \"{}\";", t.name));
        if let Some(rows) = db.get(t.name) {
            if !rows.is_empty() {
                sql.push_str(&format!(
                    "INSERT INTO \"{}\" VALUES {};",
                    t.name,
                    rows.iter().map(|r| format!("({})", r.iter().map(|c| c.sql()).collect::<Vec<_>>().join(","))).collect::<Vec<_>>().join(",")
                ));
            }
        }
    }
    e.exec(&sql).expect("fill");
}

fn sig_of_error(e: &str) -> String {
    // normalise an engine error into a short class
    let e = e.to_lowercase();
    for k in ["no such column", "no such function", "no such table", "misuse of aggregate", "ambiguous column name", "syntax error", "near", "order by term", "wrong number of arguments"] {
        if e.contains(k) {
            return k.replace(' ', "-");
        }
    }
    "other-error".into()
}

/// which of C07 / C08 / C14 to evaluate
#[derive(Clone, Copy, PartialEq)]
pub enum Which {
    C07,
    C08,
    C14,
}

fn total_rows(tier: Tier, ntables: usize) -> usize {
    match (tier, ntables) {
        (Tier::Quick, 1) => 3,
        (Tier::Quick, _) => 3,
        (Tier::Thorough, 1) => 3,
        (Tier::Thorough, 2) => 4,
        (Tier::Thorough, _) => 4,
    }
}

pub fn run_sql_check(ctx: &Ctx, which: Which) -> Report {
    let level = match which {
        Which::C08 => "translation_validation",
        _ => "exploration",
    };
    if let Err(e) = crate::sqlite::self_test() {
        let mut r = Report::new(level);
        r.machinery_errors.push(e);
        return r;
    }
    let world = World::standard();
    let relations = world.relations();
    let gqs = queries_plus(ctx.tier);
    let n_queries = gqs.len();
    let mut head = Report::new(level);
    // compile every query once, on 16 fresh threads (contiguous slices, results kept in enumeration order)
    let gqs: Vec<GenQuery> = gqs.into_iter().filter(|gq| ctx.wants(&gq.sql)).collect();
    let nthreads = 16usize;
    let slice = (gqs.len() + nthreads - 1) / nthreads.max(1);
    let mut prepared: Vec<Prepared> = vec![];
    std::thread::scope(|sc| {
        let handles: Vec<_> = gqs
            .chunks(slice.max(1))
            .map(|part| {
                let relations = &relations;
                std::thread::Builder::new()
                    .stack_size(64 << 20)
                    .spawn_scoped(sc, move || {
                        part.iter()
                            .map(|gq| {
                                let outcome = compile(&gq.sql, relations);
                                let names = defined_names(&gq.sql);
                                let unlimited = if gq.limit { strip_limit(&gq.sql) } else { None };
                                let star = has_wildcard(&gq.sql);
                                Prepared { gq: gq.clone(), outcome, names, unlimited, star }
                            })
                            .collect::<Vec<_>>()
                    })
                    .expect("spawn")
            })
            .collect();
        for h in handles {
            prepared.extend(h.join().expect("compile thread"));
        }
    });
    for p in &prepared {
        match &p.outcome {
            Outcome::Ok(_) => head.add_count("queries_compiled", 1),
            Outcome::Err(e) => {
                head.add_count("queries_rejected_with_error", 1);
                head.reach("rejected_examples", &format!("{} :: {}", p.gq.sql, e.chars().take(80).collect::<String>()));
            }
            Outcome::Panic(pn) => {
                head.add_count("queries_rejected_by_panic(left to C18)", 1);
                head.reach("panic_sites", &pn.site());
            }
        }
    }
    head.set("queries_total", n_queries as u64);
    let groups = group_by_tables(prepared);
    let tier = ctx.tier;
    let known = crate::features::open_known(&ctx.id);
    for (tables, qs) in groups {
        let n = total_rows(tier, tables.len());
        let dbs = world.databases(&tables, n);
        head.reach("databases_per_table_set", &format!("{}:{}", tables.join("+"), dbs.len()));
        let chunk = ((dbs.len() + 15) / 16).max(1); // one engine (and one set of prepared statements) per worker
        let chunks: Vec<Vec<Db>> = dbs.chunks(chunk).map(|c| c.to_vec()).collect();
        let world = &world;
        let qs = &qs;
        let relations = &relations;
        let known = &known;
        let part = par_reports(chunks, level, move |dbs, r| {
            let e = new_engine(world);
            // relations compiled with exact table sizes, per size vector (C07 only)
            let mut exact_cache: BTreeMap<(usize, Vec<usize>), Outcome> = BTreeMap::new();
            // queries are processed in blocks whose prepared statements fit in the statement cache
            // (original + rendered text per query); every block sees every database of the chunk
            let block = 3000usize;
            let nblocks = (qs.len() + block - 1) / block;
            for bi in 0..nblocks {
            let (lo, hi) = (bi * block, ((bi + 1) * block).min(qs.len()));
            for db in dbs.iter() {
                let db_rows: usize = db.values().map(|rows| rows.len()).sum();
                if !qs[lo..hi].iter().any(|p| db_rows <= p.gq.max_total_rows) {
                    continue;
                }
                fill(&e, world, db);
                if bi == 0 {
                    r.add_count("databases", 1);
                }
                for (qi, p) in qs.iter().enumerate().skip(lo).take(hi - lo) {
                    if db_rows > p.gq.max_total_rows {
                        continue;
                    }
                    let c = match &p.outcome {
                        Outcome::Ok(c) => c,
                        _ => continue,
                    };
                    r.evaluations += 1;
                    let orig = match e.query(&p.gq.sql) {
                        Ok(t) => t,
                        Err(err) => {
                            r.reach("skipped_sqlite_rejects_original", &sig_of_error(&err));
                            continue;
                        }
                    };
                    if !orig.rows.is_empty() {
                        r.distinct_nontrivial += 1;
                        if r.samples.is_empty() && orig.rows.len() >= 2 {
                            r.sample(json!({"query": p.gq.sql, "term": p.gq.term, "database": show_db(db), "rows_returned": orig.rows.len(), "declared_size": format!("{:?}", c.size), "declared_schema": c.fields.iter().map(|(n, t, k)| format!("{n}: {t}{}", if k.is_some() { " (UNIQUE)" } else { "" })).collect::<Vec<_>>()}));
                        }
                    }
                    match which {
                        Which::C07 => {
                            check_c07(&p.gq, c, &orig, db, "interval-size", known, r);
                            // the same with tables declared at exactly the instance's sizes (quick: for the
                            // hand-written list and the depth-1 terms only)
                            if tier == Tier::Quick && !p.gq.subqueries.is_empty() && !p.gq.tags.contains(&"quick-depth-3") {
                                continue;
                            }
                            let sizes: Vec<usize> = world.tables.iter().map(|t| db.get(t.name).map_or(0, |x| x.len())).collect::<Vec<usize>>();
                            let key = (qi, sizes);
                            let oc = exact_cache.entry(key).or_insert_with(|| compile(&p.gq.sql, &world.relations_exact(db)));
                            if let Outcome::Ok(c2) = oc {
                                let c2 = c2.clone();
                                check_c07(&p.gq, &c2, &orig, db, "exact-size", known, r);
                            }
                        }
                        Which::C08 => check_c08(p, c, &orig, &e, db, r),
                        Which::C14 => check_c14(&p.gq, c, &orig, db, r),
                    }
                }
            }
            }
            let _ = relations;
        });
        head.merge(part);
    }
    // tags coverage
    if which == Which::C14 && (ctx.replay.is_none() || ctx.wants("values-lists")) {
        c14_values(&mut head);
    }
    if which == Which::C07 && (ctx.replay.is_none() || ctx.wants("builder-set")) {
        c07_builder_sets(ctx, &mut head);
    }
    head.rule = match which {
        Which::C07 => "E-sql queries x all database instances of the tables they read (<= N rows in total, cells from 2-3 value domains incl. NULL and range boundaries, unique columns honoured), tables declared with interval sizes and with the exact instance sizes; oracle: every cell returned by SQLite for the original query is a reference member of the declared column type (NULL iff optional) and the row count lies in the declared size; plus Set relations built with the builder directly over tables of exact size (operands the SQL reader never produces: positive minimum size) x 3 operators x 3 quantifiers x every instance of the table, row count by a multiset reference. non-trivial = (query, database) pairs returning at least one row",
        Which::C08 => "E-sql queries x all database instances (as C07); oracle: SQLite result of the original text vs of the rendered text on the same connection: equal multisets, equal sequences under a total ORDER BY, equal column count, equal names where SQL defines them; LIMIT without total order compared by cardinality and inclusion in the un-limited result. non-trivial = pairs returning at least one row",
        Which::C14 => "E-sql queries x all database instances honouring the base-table unique columns; oracle: for every output field flagged UNIQUE / PRIMARY KEY the non-null executed values are pairwise distinct. non-trivial = pairs returning at least one row",
    }
    .into();
    head.assumptions = vec![
        "SQLite 3.40 semantics for the common PostgreSQL/SQLite subset, plus a shim of user-defined functions (self-tested at start-up)".into(),
        "queries SQLite itself rejects are skipped and counted".into(),
        "a panic while compiling a query is counted as rejected and left to C18".into(),
    ];
    head
}

/// Set relations built directly over base tables (the SQL reader wraps every operand in a Map, whose
/// declared minimum size is 0: a size rule that uses the minimum of an operand is only exercised this way).
/// operands: the table with its exact size, and a LIMIT 1 Map over it (every choice of the row kept);
/// reference: multiset semantics of UNION / EXCEPT / INTERSECT [ALL] computed on the instance.
fn c07_builder_sets(ctx: &Ctx, r: &mut Report) {
    use qrlew::relation::{SetOperator, SetQuantifier};
    let world = World::standard();
    let n = ctx.tier.pick(3, 4);
    let key = |row: &Vec<Cell>| row.iter().map(|c| c.show()).collect::<Vec<_>>().join("|");
    for t in world.tables.iter() {
        for db in world.databases(&[t.name], n) {
            let rows = db.get(t.name).cloned().unwrap_or_default();
            let exact = world.relations_exact(&db);
            let table: Arc<Relation> = exact.get(&[t.name.to_string()]).expect("table").clone();
            let limited: Relation = Relation::map().with_iter(table.schema().iter().map(|f| (f.name().to_string(), qrlew::expr::Expr::col(f.name())))).limit(1).input(table.as_ref().clone()).build();
            // the possible contents of the LIMIT 1 operand: each distinct row alone (nothing when the table is empty)
            let mut singles: Vec<Vec<Vec<Cell>>> = vec![];
            for row in &rows {
                if !singles.iter().any(|s| key(&s[0]) == key(row)) {
                    singles.push(vec![row.clone()]);
                }
            }
            if singles.is_empty() {
                singles.push(vec![]);
            }
            let operands: Vec<(&str, Relation, Vec<Vec<Vec<Cell>>>)> = vec![("table", table.as_ref().clone(), vec![rows.clone()]), ("limit1", limited, singles)];
            for (ln, lrel, linst) in &operands {
                for (rn, rrel, rinst) in &operands {
                    for (on, op) in [("UNION", SetOperator::Union), ("EXCEPT", SetOperator::Except), ("INTERSECT", SetOperator::Intersect)] {
                        for (qn, q) in [("", SetQuantifier::None), (" ALL", SetQuantifier::All), (" DISTINCT", SetQuantifier::Distinct)] {
                            let case = format!("builder-set {ln}({}) {on}{qn} {rn}({})", t.name, t.name);
                            let built = guarded(|| Relation::set().operator(op.clone()).quantifier(q.clone()).left(lrel.clone()).right(rrel.clone()).build());
                            let rel: Relation = match built {
                                Ok(x) => x,
                                Err(_) => {
                                    r.add_count("builder_sets_panicked(left to C18)", 1);
                                    continue;
                                }
                            };
                            let size: Vec<[i64; 2]> = rel.size().iter().cloned().collect();
                            for l in linst {
                                for rr in rinst {
                                    r.evaluations += 1;
                                    let mut cl: BTreeMap<String, i64> = BTreeMap::new();
                                    let mut cr: BTreeMap<String, i64> = BTreeMap::new();
                                    for x in l {
                                        *cl.entry(key(x)).or_insert(0) += 1;
                                    }
                                    for x in rr {
                                        *cr.entry(key(x)).or_insert(0) += 1;
                                    }
                                    let all = qn == " ALL";
                                    let count: i64 = match (on, all) {
                                        ("UNION", true) => (l.len() + rr.len()) as i64,
                                        ("UNION", false) => cl.keys().chain(cr.keys()).collect::<std::collections::BTreeSet<_>>().len() as i64,
                                        ("EXCEPT", true) => cl.iter().map(|(k, c)| (c - cr.get(k).copied().unwrap_or(0)).max(0)).sum(),
                                        ("EXCEPT", false) => cl.keys().filter(|k| !cr.contains_key(*k)).count() as i64,
                                        ("INTERSECT", true) => cl.iter().map(|(k, c)| (*c).min(cr.get(k).copied().unwrap_or(0))).sum(),
                                        _ => cl.keys().filter(|k| cr.contains_key(*k)).count() as i64,
                                    };
                                    if count > 0 {
                                        r.distinct_nontrivial += 1;
                                    }
                                    r.add_count("builder_set_cases", 1);
                                    if !size.iter().any(|[a, b]| *a <= count && count <= *b) {
                                        let kind = if size.iter().all(|[_, b]| count > *b) { "above-max" } else { "below-min" };
                                        r.violation(
                                            format!("size {kind} node=set builder {on}{qn} {ln}/{rn}"),
                                            &case,
                                            json!({"relation": case, "declared_size": format!("{:?}", size), "rows": count, "left_rows": l.iter().map(key).collect::<Vec<_>>(), "right_rows": rr.iter().map(key).collect::<Vec<_>>(), "database": show_db(&db)}),
                                        );
                                    }
                                }
                            }
                        }
                    }
                }
            }
        }
    }
}

// ---------------------------------------------------------------------------------------

fn check_c07(gq: &GenQuery, c: &CompiledOk, orig: &Table, db: &Db, mode: &str, known: &std::collections::BTreeSet<String>, r: &mut Report) {
    let n = orig.rows.len() as i64;
    if !c.size.iter().any(|[a, b]| *a <= n && n <= *b) {
        let kind = if c.size.iter().all(|[_, b]| n > *b) { "above-max" } else { "below-min" };
        r.violation(
            crate::features::resolve(&format!("size {kind} node={}", root_kind(&c.relation)), &gq.sql, &c.features, known),
            &gq.sql,
            json!({"query": gq.sql, "declared_size": format!("{:?}", c.size), "rows": n, "database": show_db(db), "table_sizes_declared": mode, "features": c.features}),
        );
    }
    if orig.cols.len() != c.fields.len() {
        r.violation(format!("schema column-count :: {}", gq.sql), &gq.sql, json!({"query": gq.sql, "declared": c.fields.len(), "sqlite": orig.cols.len()}));
        return;
    }
    let perm = star_using_permutation(gq, &orig.cols, &c.fields.iter().map(|f| f.0.clone()).collect::<Vec<_>>());
    for row in &orig.rows {
        for i in 0..c.fields.len() {
            let cell = &row[perm[i]];
            let (name, t, _) = &c.fields[i];
            let v = cell_value(cell);
            r.add_count("cells_checked", 1);
            if *cell == Cell::Null {
                r.add_count("null_cells", 1);
            }
            if !ref_member(t, &v) {
                let what = if *cell == Cell::Null { "null-in-non-optional" } else { "value-outside-type" };
                r.violation(
                    crate::features::resolve(&format!("type {what} type={}", crate::c06::kind_of(t)), &gq.sql, &c.features, known),
                    &gq.sql,
                    json!({"query": gq.sql, "column": name, "declared_type": t.to_string(), "value": cell.show(), "row": row.iter().map(|c| c.show()).collect::<Vec<_>>(), "database": show_db(db), "table_sizes_declared": mode, "features": c.features}),
                );
                return;
            }
        }
    }
}

fn root_kind(r: &Relation) -> &'static str {
    match r {
        Relation::Table(_) => "table",
        Relation::Map(_) => "map",
        Relation::Reduce(_) => "reduce",
        Relation::Join(_) => "join",
        Relation::Set(_) => "set",
        Relation::Values(_) => "values",
    }
}

fn check_c08(p: &Prepared, c: &CompiledOk, orig: &Table, e: &Engine, db: &Db, r: &mut Report) {
    let gq = &p.gq;
    let mut rendered = match e.query(&c.rendered) {
        Ok(t) => t,
        Err(err) => {
            r.violation(
                format!("rendered-sql-fails {} :: {}", sig_of_error(&err), gq.sql),
                &gq.sql,
                json!({"query": gq.sql, "rendered": c.rendered, "error": err, "original_result": orig.show(), "database": show_db(db)}),
            );
            return;
        }
    };
    // SELECT * over a USING / NATURAL join: the standard (and PostgreSQL, which the rendering
    // follows) puts the merged columns first, SQLite keeps the left table's order. Both are
    // legitimate: align the rendered columns on the original's by name when the names coincide.
    if p.star && (gq.tags.contains(&"using") || gq.tags.contains(&"natural")) && rendered.cols.len() == orig.cols.len() {
        let perm: Option<Vec<usize>> = orig.cols.iter().map(|n| rendered.cols.iter().position(|m| m == n)).collect();
        if let Some(perm) = perm {
            let mut uniq = perm.clone();
            uniq.sort();
            uniq.dedup();
            if uniq.len() == perm.len() {
                rendered = Table { cols: perm.iter().map(|i| rendered.cols[*i].clone()).collect(), rows: rendered.rows.iter().map(|r| perm.iter().map(|i| r[*i].clone()).collect()).collect() };
            }
        }
    }
    let detail = |what: &str| json!({"query": gq.sql, "rendered": c.rendered, "what": what, "original_result": orig.show(), "rendered_result": rendered.show(), "database": show_db(db)});
    if rendered.cols.len() != orig.cols.len() {
        r.violation(format!("column-count :: {}", gq.sql), &gq.sql, detail("number of output columns differs"));
        return;
    }
    // names
    let star = p.star;
    for (i, n) in p.names.iter().enumerate() {
        if let Some(n) = n {
            if i < rendered.cols.len() && &rendered.cols[i] != n && !star {
                r.violation(format!("column-name :: {}", gq.sql), &gq.sql, detail(&format!("output column {} is named {:?}, SQL defines {:?}", i, rendered.cols[i], n)));
                break;
            }
        }
    }
    if star && gq.tables.len() == 1 && rendered.cols != orig.cols {
        r.violation(format!("column-name-star :: {}", gq.sql), &gq.sql, detail("names of SELECT * differ"));
    }
    let tol = 1e-9;
    if gq.limit && gq.order != Order::Total {
        // either engine choice is legitimate: same cardinality, rows drawn from the un-limited result
        if rendered.rows.len() != orig.rows.len() {
            r.violation(format!("limit-cardinality :: {}", gq.sql), &gq.sql, detail("row counts differ under LIMIT/OFFSET"));
            return;
        }
        if let Some(u) = &p.unlimited {
            if let Ok(full) = e.query(u) {
                let mut pool = full.sorted();
                for row in rendered.sorted() {
                    if let Some(pos) = pool.iter().position(|x| x.len() == row.len() && x.iter().zip(row.iter()).all(|(a, b)| a.close(b, tol))) {
                        pool.remove(pos);
                    } else {
                        r.violation(format!("limit-row-not-in-unlimited-result :: {}", gq.sql), &gq.sql, detail("a row of the rendered query is not a row of the un-limited original"));
                        return;
                    }
                }
            }
        }
        return;
    }
    if !same_multiset(orig, &rendered, tol) {
        r.violation(format!("rows-differ :: {}", gq.sql), &gq.sql, detail("multisets of rows differ"));
        return;
    }
    if gq.order == Order::Total && !same_sequence(orig, &rendered, tol) {
        r.violation(format!("order-differs :: {}", gq.sql), &gq.sql, detail("same rows, different order under a total ORDER BY"));
    }
}

fn check_c14(gq: &GenQuery, c: &CompiledOk, orig: &Table, db: &Db, r: &mut Report) {
    if orig.cols.len() != c.fields.len() {
        return;
    }
    let perm = star_using_permutation(gq, &orig.cols, &c.fields.iter().map(|f| f.0.clone()).collect::<Vec<_>>());
    for (fi, (name, t, cons)) in c.fields.iter().enumerate() {
        let i = perm[fi];
        if !matches!(cons, Some(Constraint::Unique) | Some(Constraint::PrimaryKey)) {
            continue;
        }
        r.add_count("unique_columns_checked", 1);
        r.reach("unique_flag_by_tags", &gq.tags.join("+"));
        let mut seen: Vec<&Cell> = vec![];
        for row in &orig.rows {
            let cell = &row[i];
            if *cell == Cell::Null {
                continue;
            }
            if seen.iter().any(|s| s.close(cell, 0.0)) {
                r.violation(
                    format!("unique-violated root={} :: {}", root_kind(&c.relation), gq.sql),
                    &gq.sql,
                    json!({"query": gq.sql, "column": name, "declared_type": t.to_string(), "duplicate_value": cell.show(), "result": orig.show(), "database": show_db(db)}),
                );
                break;
            }
            seen.push(cell);
        }
    }
}

/// literal value lists (reachable through the builder API only): every list of length <= 4 over a 3-value alphabet, as
/// integers, floats and texts; the list IS the data, so a UNIQUE flag on the column (and on a one-to-one projection
/// of it) is checked against the list itself
fn c14_values(r: &mut Report) {
    use qrlew::builder::Ready;
    use qrlew::expr::Expr;
    let alphabet = [1i64, 2, 3];
    let mut lists: Vec<Vec<i64>> = vec![vec![]];
    let mut frontier: Vec<Vec<i64>> = vec![vec![]];
    for _ in 0..4 {
        let mut next = vec![];
        for l in &frontier {
            for a in alphabet {
                let mut l2 = l.clone();
                l2.push(a);
                next.push(l2);
            }
        }
        lists.extend(next.iter().cloned());
        frontier = next;
    }
    for l in lists.iter().filter(|l| !l.is_empty()) {
        let distinct = {
            let mut s = l.clone();
            s.sort();
            s.dedup();
            s.len() == l.len()
        };
        for kind in ["int", "float", "text"] {
            r.evaluations += 1;
            let built = guarded(|| -> Relation {
                match kind {
                    "int" => Relation::values().name("v").values(l.iter().map(|x| Value::integer(*x))).build(),
                    "float" => Relation::values().name("v").values(l.iter().map(|x| Value::float(*x as f64 + 0.5))).build(),
                    _ => Relation::values().name("v").values(l.iter().map(|x| Value::text(format!("t{x}")))).build(),
                }
            });
            let rel = match built {
                Ok(rel) => rel,
                Err(p) => {
                    r.reach("values_panics(left to C18)", &p.site());
                    continue;
                }
            };
            let flagged = rel.schema().iter().any(|f| matches!(f.constraint(), Some(Constraint::Unique) | Some(Constraint::PrimaryKey)));
            if flagged {
                r.add_count("unique_value_lists", 1);
                r.distinct_nontrivial += 1;
            }
            if flagged && !distinct {
                r.violation(format!("unique-violated root=values kind={kind}"), "values-lists", json!({"values": l, "kind": kind, "schema": rel.schema().to_string(), "note": "the list is the data: it repeats a value but the column is flagged UNIQUE"}));
                continue;
            }
            // a one-to-one projection keeps the flag: still only when the list is duplicate-free
            let col = rel.schema().iter().next().map(|f| f.name().to_string()).unwrap_or_default();
            let mapped = guarded(|| -> Relation { Relation::map().name("m").with(("y", Expr::opposite(Expr::col(col.clone())))).with(("z", Expr::col(col.clone()))).input(rel.clone()).build() });
            if let Ok(m) = mapped {
                for f in m.schema().iter() {
                    if matches!(f.constraint(), Some(Constraint::Unique) | Some(Constraint::PrimaryKey)) && !distinct {
                        r.violation(format!("unique-violated root=map-over-values kind={kind}"), "values-lists", json!({"values": l, "kind": kind, "field": f.name(), "schema": m.schema().to_string()}));
                    }
                }
            }
        }
    }
}

// ---------------------------------------------------------------------------------------
// C15 (b): ambiguous names

pub fn c15b(ctx: &Ctx, r: &mut Report) {
    if ctx.replay.is_some() && !ctx.wants("sql-ambiguity") {
        return;
    }
    if let Err(e) = crate::sqlite::self_test() {
        r.machinery_errors.push(e);
        return;
    }
    let world = World::standard();
    let relations = world.relations();
    // queries with the same column name in two joined relations, aliases shadowing tables, CTEs
    // shadowing tables, three-way clashes; `using` lists the names the query's own USING/NATURAL covers
    let mut qs: Vec<(String, Vec<&'static str>)> = vec![];
    let joins = ["JOIN", "LEFT JOIN", "RIGHT JOIN", "FULL JOIN", "CROSS JOIN"];
    for j in joins {
        let on = if j == "CROSS JOIN" { "" } else { " ON users.id = orders.user_id" };
        for sel in ["id", "id, amount", "users.id, id", "age, id + 1 AS x", "count(id) AS c", "amount"] {
            qs.push((format!("SELECT {sel} FROM users {j} orders{on}"), vec!["users", "orders"]));
        }
        for p in ["id = 1", "id > user_id"] {
            qs.push((format!("SELECT age FROM users {j} orders{on} WHERE {p}"), vec!["users", "orders"]));
        }
        qs.push((format!("SELECT age FROM users {j} orders{on} ORDER BY id"), vec!["users", "orders"]));
        qs.push((format!("SELECT count(*) AS c FROM users {j} orders{on} GROUP BY id"), vec!["users", "orders"]));
        // the same names written in another case: unquoted identifiers are folded, so they clash all the same
        // (seed C15-5: a case-folded retry bound the name to the first column whose last component matched)
        for sel in ["ID", "Id, amount", "AGE, Id + 1 AS x", "count(ID) AS c", "Amount AS amount"] {
            qs.push((format!("SELECT {sel} FROM users {j} orders{on}"), vec!["users", "orders"]));
        }
        qs.push((format!("SELECT age FROM users {j} orders{on} WHERE ID = 1"), vec!["users", "orders"]));
        qs.push((format!("SELECT age FROM users {j} orders{on} ORDER BY Id"), vec!["users", "orders"]));
        qs.push((format!("SELECT count(*) AS c FROM users {j} orders{on} GROUP BY ID"), vec!["users", "orders"]));
    }
    for j in ["JOIN", "LEFT JOIN"] {
        // self joins and aliases
        qs.push((format!("SELECT id FROM users a {j} users b ON a.id = b.id"), vec!["users"]));
        qs.push((format!("SELECT a.id, age FROM users a {j} users b ON a.id = b.id"), vec!["users"]));
        qs.push((format!("SELECT a.id FROM users a {j} users b ON a.id = b.id"), vec!["users"]));
        qs.push((format!("SELECT city FROM users {j} ref ON users.city = ref.city"), vec!["users", "ref"]));
        qs.push((format!("SELECT city FROM users {j} ref USING (city)"), vec!["users", "ref"]));
        qs.push((format!("SELECT city, id FROM users NATURAL {j} ref"), vec!["users", "ref"]));
        qs.push((format!("SELECT id FROM users {j} orders USING (id)"), vec!["users", "orders"]));
        // three-way clash
        qs.push((format!("SELECT id FROM users u {j} orders o ON u.id = o.user_id {j} items i ON o.id = i.order_id"), vec!["users", "orders", "items"]));
        qs.push((format!("SELECT city FROM users u {j} orders o ON u.id = o.user_id {j} ref r ON u.city = r.city"), vec!["users", "orders", "ref"]));
        qs.push((format!("SELECT u.city, zone FROM users u {j} orders o ON u.id = o.user_id {j} ref r ON u.city = r.city"), vec!["users", "orders", "ref"]));
    }
    // aliases / CTEs shadowing tables
    qs.push(("SELECT id FROM users AS orders JOIN orders AS users ON orders.id = users.user_id".into(), vec!["users", "orders"]));
    qs.push(("SELECT orders.age FROM users AS orders".into(), vec!["users"]));
    qs.push(("WITH orders AS (SELECT id, age FROM users) SELECT id FROM orders".into(), vec!["users"]));
    qs.push(("WITH orders AS (SELECT id, age FROM users) SELECT orders.id, users.id AS uid FROM orders JOIN users ON orders.id = users.id".into(), vec!["users"]));
    qs.push(("WITH t AS (SELECT id FROM users) SELECT id FROM t JOIN orders ON t.id = orders.user_id".into(), vec!["users", "orders"]));
    qs.push(("SELECT id FROM (SELECT id FROM users) AS a JOIN (SELECT id FROM orders) AS b ON a.id = b.id".into(), vec!["users", "orders"]));
    qs.push(("SELECT a.id FROM (SELECT id FROM users) AS a JOIN (SELECT id FROM orders) AS b ON a.id = b.id".into(), vec!["users", "orders"]));
    // chains of two joins over {users, orders, ref} (aliases a, b, c), each join with ON or USING on every shared
    // column, selecting every unqualified name that two of the three relations have: a name merged by an earlier
    // USING must still clash with a same-named column brought by a later join
    {
        let cols: [(&'static str, &[(&str, char)]); 3] = [
            ("users", &[("id", 'i'), ("age", 'i'), ("city", 't')]),
            ("orders", &[("id", 'i'), ("user_id", 'i'), ("amount", 'f')]),
            ("ref", &[("city", 't'), ("zone", 'i')]),
        ];
        let shared = |x: &[(&str, char)], y: &[(&str, char)]| -> Vec<String> { x.iter().filter(|(n, _)| y.iter().any(|(m, _)| m == n)).map(|(n, _)| n.to_string()).collect() };
        let on_pair = |x: &[(&str, char)], y: &[(&str, char)]| -> Option<(String, String)> { x.iter().find_map(|(n, k)| y.iter().find(|(_, l)| l == k).map(|(m, _)| (n.to_string(), m.to_string()))) };
        for (t1, c1) in cols.iter() {
            for (t2, c2) in cols.iter() {
                for (t3, c3) in cols.iter() {
                    let mut j1s: Vec<String> = shared(c1, c2).into_iter().map(|c| format!("USING ({c})")).collect();
                    if let Some((x, y)) = on_pair(c1, c2) {
                        j1s.push(format!("ON a.{x} = b.{y}"));
                    }
                    let mut j2s: Vec<String> = shared(c1, c3).into_iter().chain(shared(c2, c3)).map(|c| format!("USING ({c})")).collect();
                    j2s.dedup();
                    if let Some((x, y)) = on_pair(c1, c3) {
                        j2s.push(format!("ON a.{x} = c.{y}"));
                    }
                    if let Some((x, y)) = on_pair(c2, c3) {
                        j2s.push(format!("ON b.{x} = c.{y}"));
                    }
                    let mut names: Vec<String> = vec![];
                    for (n, _) in c1.iter().chain(c2.iter()).chain(c3.iter()) {
                        let count = [c1, c2, c3].iter().filter(|c| c.iter().any(|(m, _)| m == n)).count();
                        if count >= 2 && !names.contains(&n.to_string()) {
                            names.push(n.to_string());
                        }
                    }
                    let mut tabs: Vec<&'static str> = vec![*t1, *t2, *t3];
                    tabs.sort();
                    tabs.dedup();
                    for j1 in &j1s {
                        for j2 in &j2s {
                            for n in &names {
                                qs.push((format!("SELECT {n} FROM {t1} a JOIN {t2} b {j1} JOIN {t3} c {j2}"), tabs.clone()));
                            }
                        }
                    }
                }
            }
        }
    }
    // SELECT * over a join of two / three relations that all carry the same column name, read through a derived
    // table or a CTE by an outer query that uses the shared name unqualified (SQLite binds the FIRST of the
    // duplicate columns of a sub-query; a name the library cannot tell apart must be refused, not bound to another)
    for j in ["JOIN", "LEFT JOIN"] {
        let froms = [
            format!("users a {j} orders b ON a.id = b.user_id"),
            format!("users a {j} orders b ON a.id = b.user_id {j} users c ON c.id = b.id"),
            format!("orders a {j} users b ON a.user_id = b.id {j} orders c ON c.user_id = a.id"),
            format!("users a {j} users b ON a.id < b.id {j} users c ON b.id < c.id"),
        ];
        for f in &froms {
            for n in ["id", "age", "amount", "id + 1 AS x", "count(id) AS c"] {
                qs.push((format!("SELECT {n} FROM (SELECT * FROM {f}) AS s"), vec!["users", "orders"]));
                qs.push((format!("WITH s AS (SELECT * FROM {f}) SELECT {n} FROM s"), vec!["users", "orders"]));
            }
        }
    }
    let e = new_engine(&world);
    // schema-qualified tables (main.users ...) and CTEs / aliases whose name is the last component of a qualified
    // table: the qualified reference must keep naming the table (SQLite: `main` is its own schema name)
    {
        let relations_q = world.relations_qualified();
        let qq: Vec<(&str, Vec<&'static str>)> = vec![
            ("WITH users AS (SELECT id + 10 AS id FROM main.orders) SELECT id FROM main.users", vec!["users", "orders"]),
            ("WITH users AS (SELECT id + 10 AS id FROM main.orders) SELECT id FROM users", vec!["users", "orders"]),
            ("WITH orders AS (SELECT id + 10 AS id, age FROM main.users) SELECT a.id, b.id AS oid FROM main.orders AS a JOIN orders AS b ON a.id <> b.id", vec!["users", "orders"]),
            ("WITH users AS (SELECT id + 10 AS id FROM main.users) SELECT id FROM main.users", vec!["users"]),
            ("WITH USERS AS (SELECT id + 10 AS id FROM main.orders) SELECT id FROM main.users", vec!["users", "orders"]),
            ("SELECT id FROM main.users", vec!["users"]),
            ("SELECT users.id FROM main.users JOIN main.orders ON users.id = orders.user_id", vec!["users", "orders"]),
            ("SELECT main.users.id FROM main.users", vec!["users"]),
            ("WITH t AS (SELECT id FROM main.users) SELECT t.id FROM t JOIN main.orders ON t.id = orders.user_id", vec!["users", "orders"]),
        ];
        for (sql, tables) in qq {
            r.evaluations += 1;
            if e.conn.prepare(sql).is_err() {
                r.add_count("qualified_queries_rejected_by_sqlite", 1);
                continue;
            }
            if let Outcome::Ok(c) = compile(sql, &relations_q) {
                r.distinct_nontrivial += 1;
                for db in world.databases(&tables, 2) {
                    fill(&e, &world, &db);
                    match (e.query(sql), e.query(&c.rendered)) {
                        (Ok(o), Ok(n)) => {
                            if !same_multiset(&o, &n, 1e-9) {
                                r.violation("qualified-name-resolves-differently".to_string(), "sql-ambiguity", json!({"query": sql, "rendered": c.rendered, "original_result": o.show(), "rendered_result": n.show(), "database": show_db(&db)}));
                                break;
                            }
                        }
                        (Ok(_), Err(err)) => {
                            r.violation(format!("qualified-accepted-but-rendered-fails {}", sig_of_error(&err)), "sql-ambiguity", json!({"query": sql, "rendered": c.rendered, "error": err}));
                            break;
                        }
                        _ => break,
                    }
                }
            } else {
                r.add_count("qualified_queries_refused", 1);
            }
        }
    }
    for (sql, tables) in qs {
        let case_id = "sql-ambiguity";
        r.evaluations += 1;
        // SQLite's verdict on an empty database: name resolution happens at prepare time
        let sqlite = e.conn.prepare(&sql).map(|_| ()).map_err(|x| x.to_string());
        let outcome = compile(&sql, &relations);
        let ambiguous = matches!(&sqlite, Err(m) if m.contains("ambiguous column name"));
        r.reach("sqlite_verdicts", match &sqlite { Ok(_) => "accepted", Err(m) if m.contains("ambiguous") => "ambiguous", Err(_) => "other-error" });
        if ambiguous {
            r.distinct_nontrivial += 1;
            match &outcome {
                Outcome::Ok(c) => r.violation(
                    format!("ambiguous-name-bound-silently {}", if sql.contains(" c ") { if sql.contains("USING") { "chain-with-using" } else { "chain" } } else if sql.contains(" a ") { "self-join" } else if sql.contains("items") || sql.matches("JOIN").count() > 1 { "three-way" } else { "two-way" }),
                    case_id,
                    json!({"query": sql, "sqlite": sqlite.clone().err(), "qrlew_rendered": c.rendered}),
                ),
                Outcome::Err(_) => r.add_count("ambiguous_refused_by_error", 1),
                Outcome::Panic(_) => r.add_count("ambiguous_refused_by_panic(left to C18)", 1),
            }
        } else if sqlite.is_ok() {
            // both accept: results must agree on every small database
            if let Outcome::Ok(c) = &outcome {
                for db in world.databases(&tables, if sql.contains("(SELECT * FROM") { 3 } else { 2 }) {
                    fill(&e, &world, &db);
                    let (o, n) = (e.query(&sql), e.query(&c.rendered));
                    match (o, n) {
                        (Ok(o), Ok(n)) => {
                            if !same_multiset(&o, &n, 1e-9) {
                                r.violation("accepted-name-resolves-differently".to_string(), case_id, json!({"query": sql, "rendered": c.rendered, "original_result": o.show(), "rendered_result": n.show(), "database": show_db(&db)}));
                                break;
                            }
                        }
                        (Ok(_), Err(err)) => {
                            r.violation(format!("accepted-but-rendered-fails {}", sig_of_error(&err)), case_id, json!({"query": sql, "rendered": c.rendered, "error": err}));
                            break;
                        }
                        _ => break,
                    }
                }
            }
        }
    }
}
