//! C05 — privacy-unit tracking: a tracked row depends only on its own unit's data.
//! For every E-sql query the privacy-unit-preserving rewriting accepts (both strategies) and EVERY
//! database instance: every row of R(D) carries a non-null unit and weight; for every unit u the
//! rows of R(D) attributed to u are exactly R(D restricted to u), which carries only u.
use crate::common::*;
use crate::dpchecks::{fill, new_engine, only_unit, units};
use crate::sqlgen::queries;
use crate::sqlite::{Cell, Table};
use crate::world::{show_db, Db, World};
use qrlew::builder::With;
use qrlew::differential_privacy::DpParameters;
use qrlew::privacy_unit_tracking::Strategy;
use qrlew::relation::Relation;
use qrlew::sql::parse;
use serde_json::json;
use std::collections::BTreeMap;
use std::sync::Arc;

struct Subject {
    sql: String,
    tables: Vec<&'static str>,
    strategy: &'static str,
    /// how the tables are registered / named by the privacy unit ("by-path" or "by-name")
    naming: &'static str,
    rewritten: Arc<Relation>,
    /// structural features of the ORIGINAL relation (features.rs)
    features: Vec<String>,
}

fn rows_of_unit(t: &Table, ui: usize, u: i64) -> Vec<Vec<Cell>> {
    let mut v: Vec<Vec<Cell>> = t.rows.iter().filter(|r| r[ui] == Cell::Int(u)).cloned().collect();
    v.sort_by_key(|row| row.iter().map(|c| c.key()).collect::<Vec<_>>());
    v
}

pub fn run(ctx: &Ctx) -> Report {
    let level = "exploration";
    let mut head = Report::new(level);
    if let Err(e) = crate::sqlite::self_test() {
        head.machinery_errors.push(e);
        return head;
    }
    let world = if ctx.tier == Tier::Quick { World::compact() } else { World::standard() };
    let relations_by_path = world.relations();
    let relations_by_name = world.relations_named();
    let relations_qualified = world.relations_qualified();
    let mut subjects: Vec<Subject> = vec![];
    let step = ctx.tier.pick(4, 1);
    // hand-written E-sql (quick: every fourth) followed by the composed terms: quick = every unary constructor over
    // the protected tables and every join constructor over the pairs of {users, orders, ref} with a protected side;
    // thorough = every term of depth <= 2
    let mut all = queries(ctx.tier);
    let n_hand = all.len();
    {
        let mut seen: std::collections::BTreeSet<String> = all.iter().map(|g| g.sql.clone()).collect();
        let composed = if ctx.tier == Tier::Quick { crate::sqlgen::composed(1).into_iter().filter(|g| !g.tables.contains(&"items")).collect::<Vec<_>>() } else { crate::sqlgen::composed(2) };
        for g in composed {
            if seen.insert(g.sql.clone()) {
                all.push(g);
            }
        }
    }
    for (i, g) in all.into_iter().enumerate() {
        if g.tables.iter().any(|t| *t == "m" || *t == "p" || *t == "q" || *t == "nu") || g.tables.iter().all(|t| *t == "ref") {
            continue;
        }
        if i % step != 0 && i < n_hand {
            continue;
        }
        // tables registered under their path (privacy unit keyed by the path) and, for the hand-written queries and
        // the depth-1 terms, under a Qrlew name that differs from the path (privacy unit keyed by the name)
        for (sname, strat, naming) in [("hard", Strategy::Hard, "by-path"), ("soft", Strategy::Soft, "by-path"), ("hard", Strategy::Hard, "by-name"), ("hard", Strategy::Hard, "qualified")] {
            // the naming variants: for the hand-written queries (quick: the sampled ones), thorough: also the depth-1 terms
            if naming != "by-path" && !(i < n_hand || (ctx.tier == Tier::Thorough && g.subqueries.is_empty())) {
                continue;
            }
            let id = if naming == "by-path" { format!("{} [{}]", g.sql, sname) } else { format!("{} [{} {}]", g.sql, sname, naming) };
            if !ctx.wants(&id) {
                continue;
            }
            let (relations, pu) = match naming {
                "by-name" => (&relations_by_name, crate::c18::privacy_unit_named()),
                "qualified" => (&relations_qualified, crate::c18::privacy_unit()),
                _ => (&relations_by_path, crate::c18::privacy_unit()),
            };
            let mut feats: Vec<String> = vec![];
            let mut reads_protected = false;
            let r = guarded(|| -> Result<Relation, String> {
                let rel = Relation::try_from(parse(&g.sql).map_err(|e| e.to_string())?.with(relations)).map_err(|e| e.to_string())?;
                feats = crate::features::features(&rel);
                reads_protected = crate::features::reads_protected_table(&rel);
                let out = rel
                    .rewrite_as_privacy_unit_preserving(relations, None, pu, DpParameters::from_epsilon_delta(1.0, 1e-3), Some(strat))
                    .map_err(|e| e.to_string())?;
                Ok(out.relation().clone())
            });
            match r {
                Ok(Ok(rel)) => {
                    // only relations that are tracked (a public result has no unit column)
                    use qrlew::relation::Variant as _;
                    if rel.schema().iter().any(|f| f.name() == "_PRIVACY_UNIT_") {
                        head.reach("accepted_by_strategy", sname);
                        for t in &g.tags {
                            head.reach("accepted_by_tag", t);
                        }
                        subjects.push(Subject { sql: g.sql.clone(), tables: g.tables.clone(), strategy: sname, naming, rewritten: Arc::new(rel), features: feats.clone() });
                    } else if reads_protected {
                        // a privacy-unit-preserving rewriting of a query over protected tables whose result carries no
                        // privacy unit: the protected rows are passed on untracked
                        head.violation(
                            format!("pup protected-rows-untracked strategy={sname}"),
                            &id,
                            json!({"query": g.sql, "strategy": sname, "returned_schema": rel.schema().iter().map(|f| f.name().to_string()).collect::<Vec<_>>(), "note": "rewrite_as_privacy_unit_preserving returned Ok for a query that reads a protected table, and the result has no _PRIVACY_UNIT_ column"}),
                        );
                    } else {
                        head.add_count("accepted_as_public(no unit column)", 1);
                    }
                }
                Ok(Err(_)) => head.add_count("refused", 1),
                Err(p) => {
                    head.add_count("rejected_by_panic(left to C18)", 1);
                    head.reach("panic_sites", &p.site());
                }
            }
        }
    }
    head.set("subjects", subjects.len() as u64);
    let mut by_tables: BTreeMap<Vec<&'static str>, Vec<Subject>> = BTreeMap::new();
    for s in subjects {
        let mut t = s.tables.clone();
        t.sort();
        by_tables.entry(t).or_default().push(s);
    }
    let tier = ctx.tier;
    let known = crate::features::open_known("C05");
    for (tables, subs) in by_tables {
        let n = match (tier, tables.len()) {
            (Tier::Quick, 1) => 2,
            (Tier::Quick, _) => 4,
            (Tier::Thorough, 1) => 3,
            (Tier::Thorough, _) => 3,
        };
        let dbs = world.databases(&tables, n);
        head.reach("databases_per_table_set", &format!("{}:{}", tables.join("+"), dbs.len()));
        let chunk = (dbs.len() / 48).max(1);
        let chunks: Vec<Vec<Db>> = dbs.chunks(chunk).map(|c| c.to_vec()).collect();
        let world = &world;
        let subs = &subs;
        let known = &known;
        let part = par_reports(chunks, level, move |dbs, r| {
            let e = new_engine(world);
            e.conn.set_prepared_statement_cache_capacity(512);
            r.add_count("databases", dbs.len() as u64);
            for s in subs.iter() {
                let case_id = if s.naming == "by-path" { format!("{} [{}]", s.sql, s.strategy) } else { format!("{} [{} {}]", s.sql, s.strategy, s.naming) };
                let plan = match e.plan(&s.rewritten) {
                    Ok(p) => p,
                    Err(err) => {
                        r.reach("materialisation_errors", &err.chars().take(80).collect::<String>());
                        continue;
                    }
                };
                'db: for db in dbs.iter() {
                    fill(&e, world, db);
                    e.set_script(vec![], None);
                    let full = match e.run_plan(&plan, Some(&[])) {
                        Ok((t, _)) => t,
                        Err(err) => {
                            r.reach("materialisation_errors", &err.chars().take(80).collect::<String>());
                            continue;
                        }
                    };
                    r.evaluations += 1;
                    let dp_release = e.random_calls() > 0;
                    let (ui, wi) = match (full.cols.iter().position(|c| c == "_PRIVACY_UNIT_"), full.cols.iter().position(|c| c == "_PRIVACY_UNIT_WEIGHT_")) {
                        (Some(u), Some(w)) => (u, w),
                        _ => continue,
                    };
                    for row in &full.rows {
                        if row[ui] == Cell::Null || row[wi] == Cell::Null {
                            let what = if row[ui] == Cell::Null { "null-unit" } else { "null-weight" };
                            r.violation(
                                crate::features::resolve(&format!("pup {what} strategy={}", s.strategy), &s.sql, &s.features, known),
                                &case_id,
                                json!({"query": s.sql, "strategy": s.strategy, "row": row.iter().map(|c| c.show()).collect::<Vec<_>>(), "result": full.show(), "database": show_db(db)}),
                            );
                            continue 'db;
                        }
                    }
                    // every unit of the database, and every unit identifier that appears in the result (a row attributed
                    // to a unit that owns nothing — a dangling foreign key — must not exist: R(D restricted to it) is empty)
                    let mut us = units(db);
                    for row in &full.rows {
                        if let Cell::Int(x) = row[ui] {
                            if !us.contains(&x) {
                                us.push(x);
                            }
                        }
                    }
                    for u in us {
                        let du = only_unit(db, u);
                        fill(&e, world, &du);
                        e.set_script(vec![], None);
                        let part = match e.run_plan(&plan, Some(&[])) {
                            Ok((t, _)) => t,
                            Err(_) => continue,
                        };
                        r.evaluations += 1;
                        if part.rows.iter().any(|row| row[ui] != Cell::Int(u)) {
                            r.violation(
                                crate::features::resolve(&format!("pup foreign-unit strategy={}", s.strategy), &s.sql, &s.features, known),
                                &case_id,
                                json!({"query": s.sql, "strategy": s.strategy, "unit": u, "result_on_D_restricted_to_u": part.show(), "database": show_db(db)}),
                            );
                            continue 'db;
                        }
                        let a = rows_of_unit(&full, ui, u);
                        let b = rows_of_unit(&part, ui, u);
                        if !a.is_empty() || !b.is_empty() {
                            r.distinct_nontrivial += 1;
                            if r.samples.is_empty() && a.len() >= 2 {
                                r.sample(json!({"query": s.sql, "strategy": s.strategy, "database": show_db(db), "unit": u, "rows_of_u_in_R(D)": a.iter().map(|r| r.iter().map(|c| c.show()).collect::<Vec<_>>().join(",")).collect::<Vec<_>>(), "R(D restricted to u)": b.len()}));
                            }
                        }
                        let same = a.len() == b.len() && a.iter().zip(b.iter()).all(|(x, y)| x.iter().zip(y.iter()).all(|(c, d)| c.close(d, 1e-9)));
                        // a privacy-unit-preserving rewriting may embed a DIFFERENTIALLY PRIVATE sub-relation (an aggregation
                        // below a join is released with noise and then joined as public data): its cells are releases governed
                        // by C01-C04, not tracked data, and legitimately depend on every unit. The row equality is decided
                        // for the rewritings that draw no noise.
                        if !same && dp_release {
                            r.add_count("row_equality_not_decided(rewriting_embeds_a_dp_release)", 1);
                            continue;
                        }
                        if !same {
                            r.violation(
                                crate::features::resolve(&format!("pup rows-depend-on-other-units strategy={}", s.strategy), &s.sql, &s.features, known),
                                &case_id,
                                json!({"query": s.sql, "strategy": s.strategy, "unit": u, "rows_of_u_in_R(D)": a.iter().map(|r| r.iter().map(|c| c.show()).collect::<Vec<_>>().join(",")).collect::<Vec<_>>(),
                                       "R(D restricted to u)": b.iter().map(|r| r.iter().map(|c| c.show()).collect::<Vec<_>>().join(",")).collect::<Vec<_>>(), "database": show_db(db)}),
                            );
                            continue 'db;
                        }
                    }
                }
                e.drop_plan(&plan);
            }
        });
        head.merge(part);
    }
    head.rule = "subjects = E-sql queries (quick: every third) accepted by rewrite_as_privacy_unit_preserving under the Hard and the Soft strategy with a tracked result (privacy unit = users.id, orders and items through their foreign-key path) x ALL database instances x EVERY privacy unit u; the rewritten relation is materialised node by node on D and on D restricted to u (protected rows not owned by u deleted; ownership computed by the harness's own row model); oracle: unit and weight never NULL; rows of R(D) attributed to u = R(D|u) as multisets; R(D|u) carries only u. non-trivial = (subject, database, unit) triples with at least one row".into();
    head.assumptions = vec!["row privacy (table m) and hashed unit ids are not in the quick alphabet".into()];
    head
}
