//! E-world: a tiny relational world and the exhaustive enumeration of its database instances.
use crate::sqlite::Cell;
use qrlew::data_type::DataType;
use qrlew::hierarchy::Hierarchy;
use qrlew::relation::{Constraint, Field, Relation, Schema, Table};
use std::collections::BTreeMap;
use std::sync::Arc;

#[derive(Clone, Debug)]
pub struct ColDef {
    pub name: &'static str,
    pub data_type: DataType,
    /// the cell values enumerated for this column (inside the declared type; NULL iff nullable)
    pub domain: Vec<Cell>,
    pub unique: bool,
}

#[derive(Clone, Debug)]
pub struct TableDef {
    pub name: &'static str,
    pub cols: Vec<ColDef>,
    pub max_rows: usize,
}

pub type Rows = Vec<Vec<Cell>>;
/// a database instance: rows per table, in canonical (sorted) order
pub type Db = BTreeMap<&'static str, Rows>;

fn int(i: i64) -> Cell {
    Cell::Int(i)
}
fn real(f: f64) -> Cell {
    Cell::Real(f)
}
fn text(s: &str) -> Cell {
    Cell::Text(s.to_string())
}

fn texts(v: &[&str]) -> DataType {
    DataType::text_values(v.iter().map(|s| s.to_string()).collect::<Vec<_>>())
}

impl TableDef {
    pub fn col_names(&self) -> Vec<String> {
        self.cols.iter().map(|c| c.name.to_string()).collect()
    }
    /// the qrlew table; `exact_size`: declare exactly that many rows, else the interval [0, max_rows]
    pub fn relation(&self, exact_size: Option<usize>) -> Relation {
        let schema = Schema::new(
            self.cols
                .iter()
                .map(|c| {
                    // the foreign keys of E-world carry the ForeignKey tag (a constraint that says nothing about uniqueness)
                    let fk = matches!((self.name, c.name), ("orders", "user_id") | ("items", "order_id"));
                    Field::new(c.name.to_string(), c.data_type.clone(), if c.unique { Some(Constraint::Unique) } else if fk { Some(Constraint::ForeignKey) } else { None })
                })
                .collect(),
        );
        let size = match exact_size {
            Some(n) => qrlew::data_type::Integer::from_value(n as i64),
            None => qrlew::data_type::Integer::from_interval(0, self.max_rows as i64),
        };
        Relation::Table(Table::new(self.name.to_string(), self.name.into(), schema, size))
    }
    /// every possible row
    pub fn row_values(&self) -> Rows {
        let mut out: Rows = vec![vec![]];
        for c in &self.cols {
            let mut next = vec![];
            for r in &out {
                for v in &c.domain {
                    let mut r2 = r.clone();
                    r2.push(v.clone());
                    next.push(r2);
                }
            }
            out = next;
        }
        out
    }
    /// all instances with exactly k rows: multisets of row values honouring the unique columns,
    /// in canonical order
    pub fn instances(&self, k: usize) -> Vec<Rows> {
        let rv = self.row_values();
        let uniq: Vec<usize> = self.cols.iter().enumerate().filter(|(_, c)| c.unique).map(|(i, _)| i).collect();
        let mut out = vec![];
        let mut cur: Vec<usize> = vec![];
        fn rec(rv: &Rows, uniq: &[usize], k: usize, start: usize, cur: &mut Vec<usize>, out: &mut Vec<Rows>) {
            if cur.len() == k {
                out.push(cur.iter().map(|i| rv[*i].clone()).collect());
                return;
            }
            for i in start..rv.len() {
                // unique columns: non-null values pairwise distinct
                let ok = cur.iter().all(|j| uniq.iter().all(|u| rv[*j][*u] == Cell::Null || rv[*j][*u] != rv[i][*u]));
                if !ok {
                    continue;
                }
                cur.push(i);
                // multiset: the same row value may repeat unless a unique column forbids it
                rec(rv, uniq, k, i, cur, out);
                cur.pop();
            }
        }
        rec(&rv, &uniq, k, 0, &mut cur, &mut out);
        out
    }
}

#[derive(Clone, Debug)]
pub struct World {
    pub tables: Vec<TableDef>,
}

impl World {
    /// users(id PK, age, city), orders(id PK, user_id FK, amount nullable), ref(city UNIQUE, zone) public,
    /// items(order_id FK, price, qty)
    pub fn standard() -> World {
        World {
            tables: vec![
                TableDef {
                    name: "users",
                    max_rows: 3,
                    cols: vec![
                        ColDef { name: "id", data_type: DataType::integer_interval(1, 3), domain: vec![int(1), int(2), int(3)], unique: true },
                        ColDef { name: "age", data_type: DataType::integer_interval(18, 20), domain: vec![int(18), int(20)], unique: false },
                        ColDef { name: "city", data_type: texts(&["A", "B"]), domain: vec![text("A"), text("B")], unique: false },
                    ],
                },
                TableDef {
                    name: "orders",
                    max_rows: 3,
                    cols: vec![
                        ColDef { name: "id", data_type: DataType::integer_interval(1, 3), domain: vec![int(1), int(2), int(3)], unique: true },
                        ColDef { name: "user_id", data_type: DataType::integer_interval(1, 3), domain: vec![int(1), int(2)], unique: false },
                        ColDef {
                            name: "amount",
                            data_type: DataType::optional(DataType::float_interval(0.0, 10.0)),
                            domain: vec![real(0.0), real(10.0), Cell::Null],
                            unique: false,
                        },
                    ],
                },
                TableDef {
                    name: "ref",
                    max_rows: 2,
                    cols: vec![
                        ColDef { name: "city", data_type: texts(&["A", "B"]), domain: vec![text("A"), text("B")], unique: true },
                        ColDef { name: "zone", data_type: DataType::integer_interval(0, 1), domain: vec![int(0), int(1)], unique: false },
                    ],
                },
                TableDef {
                    name: "m",
                    max_rows: 3,
                    cols: vec![
                        ColDef { name: "k", data_type: DataType::float_interval(0.0, 2.0), domain: vec![real(0.25), real(0.75), real(1.5)], unique: true },
                        ColDef { name: "v", data_type: DataType::integer_interval(-1, 1), domain: vec![int(-1), int(1)], unique: true },
                    ],
                },
                // two relations with two independent unique columns each (ON clauses combining
                // equalities on different unique columns: a row can match through either)
                TableDef {
                    name: "p",
                    max_rows: 2,
                    cols: vec![
                        ColDef { name: "a", data_type: DataType::integer_interval(1, 2), domain: vec![int(1), int(2)], unique: true },
                        ColDef { name: "b", data_type: DataType::integer_interval(1, 2), domain: vec![int(1), int(2)], unique: true },
                    ],
                },
                TableDef {
                    name: "q",
                    max_rows: 2,
                    cols: vec![
                        ColDef { name: "k", data_type: DataType::integer_interval(1, 2), domain: vec![int(1), int(2)], unique: true },
                        ColDef { name: "x", data_type: DataType::integer_interval(1, 2), domain: vec![int(1), int(2)], unique: false },
                        ColDef { name: "y", data_type: DataType::integer_interval(1, 2), domain: vec![int(1), int(2)], unique: false },
                    ],
                },
                // a UNIQUE column that is nullable (several rows may hold NULL) next to a plain column
                TableDef {
                    name: "nu",
                    max_rows: 3,
                    cols: vec![
                        ColDef { name: "u", data_type: DataType::optional(DataType::integer_interval(1, 3)), domain: vec![int(1), int(2), Cell::Null], unique: true },
                        ColDef { name: "w", data_type: DataType::integer_interval(1, 2), domain: vec![int(1), int(2)], unique: false },
                    ],
                },
                TableDef {
                    name: "items",
                    max_rows: 3,
                    cols: vec![
                        ColDef { name: "order_id", data_type: DataType::integer_interval(1, 3), domain: vec![int(1), int(2)], unique: false },
                        ColDef { name: "price", data_type: DataType::float_interval(-2.0, 5.0), domain: vec![real(-2.0), real(1.5), real(5.0)], unique: false },
                        ColDef { name: "qty", data_type: DataType::integer_values([1, 2, 3]), domain: vec![int(1), int(3)], unique: false },
                    ],
                },
            ],
        }
    }

    /// The same schemas with trimmed enumeration domains and at most 2 rows per table: every
    /// instance with up to 2 rows in EACH table read can then be enumerated (two units with a row
    /// of a child table each, a unit with two rows, dangling keys ...), which the DP / privacy-unit
    /// checks need more than wide value domains.
    pub fn compact() -> World {
        let mut w = World::standard();
        for t in w.tables.iter_mut() {
            t.max_rows = 2;
            for c in t.cols.iter_mut() {
                let keep: usize = match (t.name, c.name) {
                    ("users", "id") => 3,
                    ("orders", "id") | ("orders", "user_id") | ("items", "order_id") => 2,
                    ("orders", "amount") => 3,
                    ("items", "price") => 2,
                    ("items", "qty") => 1,
                    ("ref", "zone") => 1,
                    _ => 2,
                };
                // keep the extremes of the domain (first values and the last one)
                if c.domain.len() > keep {
                    let last = c.domain.last().cloned().unwrap();
                    c.domain.truncate(keep.saturating_sub(1).max(1));
                    if keep > 1 {
                        c.domain.push(last);
                    }
                }
            }
        }
        w
    }

    pub fn table(&self, name: &str) -> &TableDef {
        self.tables.iter().find(|t| t.name == name).unwrap_or_else(|| panic!("no table {name}"))
    }

    /// relations with interval sizes [0, max_rows]
    pub fn relations(&self) -> Hierarchy<Arc<Relation>> {
        self.tables.iter().map(|t| (vec![t.name.to_string()], Arc::new(t.relation(None)))).collect()
    }

    /// The same tables registered the way `Database::relations()` does it: every table under its Qrlew NAME and under
    /// its SQL PATH, with names that differ from the paths (users -> people, orders -> purchases, items -> lines, m -> mm).
    pub fn relations_named(&self) -> Hierarchy<Arc<Relation>> {
        let mut v: Vec<(Vec<String>, Arc<Relation>)> = vec![];
        for t in &self.tables {
            let name = World::qrlew_name(t.name);
            let rel = match t.relation(None) {
                Relation::Table(tab) => {
                    use qrlew::relation::Variant as _;
                    Relation::Table(Table::new(name.to_string(), t.name.into(), tab.schema().clone(), tab.size().clone()))
                }
                r => r,
            };
            let rel = Arc::new(rel);
            v.push((vec![name.to_string()], rel.clone()));
            if name != t.name {
                v.push((vec![t.name.to_string()], rel));
            }
        }
        v.into_iter().collect()
    }

    /// The same tables at schema-qualified paths (`main.users`: `main` is SQLite's own schema name, so the rendered
    /// SQL still runs), named `main_users` ..., registered under their path only: SQL text and privacy unit refer to
    /// them by the last path component, which resolves by suffix and differs from the Qrlew name.
    pub fn relations_qualified(&self) -> Hierarchy<Arc<Relation>> {
        let mut v: Vec<(Vec<String>, Arc<Relation>)> = vec![];
        for t in &self.tables {
            let rel = match t.relation(None) {
                Relation::Table(tab) => {
                    use qrlew::relation::Variant as _;
                    Relation::Table(Table::new(format!("main_{}", t.name), vec!["main".to_string(), t.name.to_string()].into(), tab.schema().clone(), tab.size().clone()))
                }
                r => r,
            };
            v.push((vec!["main".to_string(), t.name.to_string()], Arc::new(rel)));
        }
        v.into_iter().collect()
    }

    pub fn qrlew_name(table: &str) -> &str {
        match table {
            "users" => "people",
            "orders" => "purchases",
            "items" => "lines",
            "m" => "mm",
            t => t,
        }
    }

    /// relations declared with exactly the sizes of the instance
    pub fn relations_exact(&self, db: &Db) -> Hierarchy<Arc<Relation>> {
        self.tables
            .iter()
            .map(|t| (vec![t.name.to_string()], Arc::new(t.relation(Some(db.get(t.name).map_or(0, |r| r.len()))))))
            .collect()
    }

    /// All database instances over `tables` with at most `total` rows in total (other tables empty),
    /// simplest (fewest rows) first.
    pub fn databases(&self, tables: &[&str], total: usize) -> Vec<Db> {
        let defs: Vec<&TableDef> = tables.iter().map(|n| self.table(n)).collect();
        // per-table instance lists by row count
        let inst: Vec<Vec<Vec<Rows>>> = defs.iter().map(|d| (0..=d.max_rows.min(total)).map(|k| d.instances(k)).collect()).collect();
        let mut out = vec![];
        // all count vectors with sum <= total, ordered by sum
        let mut counts: Vec<Vec<usize>> = vec![vec![]];
        for d in &defs {
            let mut next = vec![];
            for c in &counts {
                for k in 0..=d.max_rows.min(total) {
                    if c.iter().sum::<usize>() + k <= total {
                        let mut c2 = c.clone();
                        c2.push(k);
                        next.push(c2);
                    }
                }
            }
            counts = next;
        }
        counts.sort_by_key(|c| c.iter().sum::<usize>());
        for c in counts {
            let mut partial: Vec<Db> = vec![self.tables.iter().map(|t| (t.name, vec![])).collect()];
            for (ti, k) in c.iter().enumerate() {
                let mut next = vec![];
                for p in &partial {
                    for rows in &inst[ti][*k] {
                        let mut p2 = p.clone();
                        p2.insert(defs[ti].name, rows.clone());
                        next.push(p2);
                    }
                }
                partial = next;
            }
            out.extend(partial);
        }
        out
    }

    pub fn load_spec(&self, db: &Db) -> Vec<(String, Vec<String>, Rows)> {
        self.tables.iter().map(|t| (t.name.to_string(), t.col_names(), db.get(t.name).cloned().unwrap_or_default())).collect()
    }
}

pub fn show_db(db: &Db) -> serde_json::Value {
    serde_json::Value::Object(
        db.iter()
            .filter(|(_, r)| !r.is_empty())
            .map(|(k, rows)| (k.to_string(), serde_json::json!(rows.iter().map(|r| format!("({})", r.iter().map(|c| c.show()).collect::<Vec<_>>().join(","))).collect::<Vec<_>>())))
            .collect(),
    )
}
