//! development aid: qv dpdump "<sql>" — shows the DP rewriting of a query over E-world, what dpir reads
//! and the node-by-node materialisation on a sample database.
use crate::sqlite::Engine;
use crate::world::{Db, World};
use qrlew::builder::With;
use qrlew::differential_privacy::DpParameters;
use qrlew::relation::{Relation, Variant as _};
use qrlew::sql::parse;

pub fn run(sql: &str) {
    let world = World::standard();
    let relations = world.relations();
    let rel = Relation::try_from(parse(sql).unwrap().with(&relations)).unwrap();
    let dp = DpParameters::from_epsilon_delta(1.0, 1e-3).with_privacy_unit_max_multiplicity_share(1.0);
    let out = rel.rewrite_with_differential_privacy(&relations, None, crate::c18::privacy_unit(), dp).unwrap();
    println!("event: {}", out.dp_event().to_string().replace('\n', " "));
    let ir = crate::dpir::analyse(out.relation());
    println!("nodes: {:?}", ir.nodes);
    println!("noised: {:#?}", ir.noised);
    println!("clips: {:?}", ir.clips);
    println!("thresholds: {:?}", ir.thresholds);
    println!("limits: {:?}", ir.limits);
    let e = Engine::new();
    let mut db: Db = world.tables.iter().map(|t| (t.name, vec![])).collect();
    use crate::sqlite::Cell::*;
    db.insert("users", vec![vec![Int(1), Int(18), Text("A".into())], vec![Int(2), Int(20), Text("A".into())], vec![Int(3), Int(20), Text("B".into())]]);
    db.insert("orders", vec![vec![Int(1), Int(1), Real(10.0)], vec![Int(2), Int(1), Real(0.0)], vec![Int(3), Int(2), Null]]);
    e.load(&world.load_spec(&db)).unwrap();
    for (label, c) in [("noise-free", None), ("c=0.5", Some(0.5))] {
        e.set_script(vec![], c);
        match e.materialise(out.relation()) {
            Ok((t, all, order)) => {
                println!("--- {label}: random calls {}", e.random_calls());
                for n in order {
                    println!("  {n}: {}", all[&n].show());
                }
                println!("  FINAL: {}", t.show());
            }
            Err(err) => println!("materialise error: {err}"),
        }
    }
}
