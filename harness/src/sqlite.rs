//! In-process SQLite as the independent SQL semantics: PostgreSQL shim (UDFs), scripted RANDOM(),
//! whole-query execution and node-by-node materialisation of a rendered relation.
use qrlew::{ast, relation::Relation};
use rusqlite::config::DbConfig;
use rusqlite::functions::{Aggregate, Context, FunctionFlags};
use rusqlite::types::{Value as SqlValue, ValueRef};
use rusqlite::Connection;
use std::collections::BTreeMap;
use std::sync::{Arc, Mutex};

#[derive(Clone, Debug, PartialEq)]
pub enum Cell {
    Null,
    Int(i64),
    Real(f64),
    Text(String),
    Blob(Vec<u8>),
}

impl Cell {
    pub fn sql(&self) -> String {
        match self {
            Cell::Null => "NULL".into(),
            Cell::Int(i) => i.to_string(),
            Cell::Real(f) => {
                if f.fract() == 0.0 && f.abs() < 1e15 {
                    format!("{:.1}", f)
                } else {
                    format!("{:e}", f)
                }
            }
            Cell::Text(s) => format!("'{}'", s.replace('\'', "''")),
            Cell::Blob(_) => "NULL".into(),
        }
    }
    pub fn show(&self) -> String {
        match self {
            Cell::Null => "NULL".into(),
            Cell::Int(i) => i.to_string(),
            Cell::Real(f) => format!("{}", f),
            Cell::Text(s) => format!("'{}'", s),
            Cell::Blob(b) => format!("x{:?}", b),
        }
    }
    pub fn num(&self) -> Option<f64> {
        match self {
            Cell::Int(i) => Some(*i as f64),
            Cell::Real(f) => Some(*f),
            _ => None,
        }
    }
    /// equality up to a relative float tolerance; Int(1) == Real(1.0)
    pub fn close(&self, other: &Cell, tol: f64) -> bool {
        match (self, other) {
            (Cell::Null, Cell::Null) => true,
            (Cell::Text(a), Cell::Text(b)) => a == b,
            (Cell::Blob(a), Cell::Blob(b)) => a == b,
            (a, b) => match (a.num(), b.num()) {
                (Some(x), Some(y)) => {
                    x == y || (x - y).abs() <= tol * (1.0 + x.abs().max(y.abs())) || (x.is_nan() && y.is_nan())
                }
                _ => false,
            },
        }
    }
    /// a canonical sort key (total order) for multiset comparison
    pub fn key(&self) -> (u8, i64, String) {
        match self {
            Cell::Null => (0, 0, String::new()),
            Cell::Int(i) => (1, (*i as f64 * 1e6).round() as i64, String::new()),
            Cell::Real(f) => (1, if f.is_finite() { (f * 1e6).round().clamp(-9e18, 9e18) as i64 } else { i64::MAX }, String::new()),
            Cell::Text(s) => (2, 0, s.clone()),
            Cell::Blob(b) => (3, 0, format!("{:?}", b)),
        }
    }
}

#[derive(Clone, Debug, PartialEq)]
pub struct Table {
    pub cols: Vec<String>,
    pub rows: Vec<Vec<Cell>>,
}

impl Table {
    pub fn sorted(&self) -> Vec<Vec<Cell>> {
        let mut r = self.rows.clone();
        r.sort_by_key(|row| row.iter().map(|c| c.key()).collect::<Vec<_>>());
        r
    }
    pub fn show(&self) -> String {
        format!(
            "{:?} {}",
            self.cols,
            self.rows
                .iter()
                .take(12)
                .map(|r| format!("({})", r.iter().map(|c| c.show()).collect::<Vec<_>>().join(",")))
                .collect::<Vec<_>>()
                .join(" ")
        )
    }
    pub fn col(&self, name: &str) -> Option<usize> {
        self.cols.iter().position(|c| c == name)
    }
}

/// same multiset of rows (up to float tolerance)
pub fn same_multiset(a: &Table, b: &Table, tol: f64) -> bool {
    if a.rows.len() != b.rows.len() {
        return false;
    }
    let (sa, sb) = (a.sorted(), b.sorted());
    sa.iter().zip(sb.iter()).all(|(x, y)| x.len() == y.len() && x.iter().zip(y.iter()).all(|(c, d)| c.close(d, tol)))
}

pub fn same_sequence(a: &Table, b: &Table, tol: f64) -> bool {
    a.rows.len() == b.rows.len()
        && a.rows.iter().zip(b.rows.iter()).all(|(x, y)| x.len() == y.len() && x.iter().zip(y.iter()).all(|(c, d)| c.close(d, tol)))
}

/// The random source handed to the emitted SQL: the i-th call answers script[i] (default 1.0,
/// which makes the Box-Muller term sqrt(-2 ln 1) vanish exactly); `constant` overrides all draws.
#[derive(Clone, Debug, Default)]
pub struct RandomScript {
    pub answers: Vec<f64>,
    pub constant: Option<f64>,
    pub calls: usize,
}

pub struct Engine {
    pub conn: Connection,
    pub script: Arc<Mutex<RandomScript>>,
}

fn cell_of(v: ValueRef) -> Cell {
    match v {
        ValueRef::Null => Cell::Null,
        ValueRef::Integer(i) => Cell::Int(i),
        ValueRef::Real(f) => Cell::Real(f),
        ValueRef::Text(t) => Cell::Text(String::from_utf8_lossy(t).to_string()),
        ValueRef::Blob(b) => Cell::Blob(b.to_vec()),
    }
}

struct VarAgg {
    sample: bool,
    sqrt: bool,
}

impl Aggregate<(f64, f64, f64), Option<f64>> for VarAgg {
    fn init(&self, _: &mut Context<'_>) -> rusqlite::Result<(f64, f64, f64)> {
        Ok((0.0, 0.0, 0.0))
    }
    fn step(&self, ctx: &mut Context<'_>, acc: &mut (f64, f64, f64)) -> rusqlite::Result<()> {
        let v: Option<f64> = ctx.get(0)?;
        if let Some(x) = v {
            acc.0 += 1.0;
            acc.1 += x;
            acc.2 += x * x;
        }
        Ok(())
    }
    fn finalize(&self, _: &mut Context<'_>, acc: Option<(f64, f64, f64)>) -> rusqlite::Result<Option<f64>> {
        let (n, s, s2) = acc.unwrap_or((0.0, 0.0, 0.0));
        let denom = if self.sample { n - 1.0 } else { n };
        if denom <= 0.0 {
            return Ok(None);
        }
        let var = ((s2 - s * s / n) / denom).max(0.0);
        Ok(Some(if self.sqrt { var.sqrt() } else { var }))
    }
}

/// a tiny deterministic 128-bit hash rendered as 32 hex digits (stands for md5: only determinism
/// and injectivity-in-practice matter, both texts run on the same engine)
fn pseudo_md5(s: &str) -> String {
    let mut a: u64 = 0xcbf29ce484222325;
    let mut b: u64 = 0x9e3779b97f4a7c15;
    for byte in s.as_bytes() {
        a ^= *byte as u64;
        a = a.wrapping_mul(0x100000001b3);
        b = (b ^ (*byte as u64).wrapping_add(a)).rotate_left(13).wrapping_mul(0xff51afd7ed558ccd);
    }
    format!("{:016x}{:016x}", a, b)
}

impl Engine {
    pub fn new() -> Engine {
        // One connection per worker thread, never shared: turn off SQLite's global allocation statistics
        // (a process-wide mutex taken on every malloc/free — with 16 workers the run was spending most of
        // its time in futex calls) before the library is initialised.
        static CONFIG: std::sync::Once = std::sync::Once::new();
        CONFIG.call_once(|| unsafe {
            let _ = rusqlite::ffi::sqlite3_config(rusqlite::ffi::SQLITE_CONFIG_MEMSTATUS, 0i32);
        });
        let conn = Connection::open_in_memory().expect("sqlite");
        conn.set_db_config(DbConfig::SQLITE_DBCONFIG_DQS_DML, false).unwrap();
        conn.set_db_config(DbConfig::SQLITE_DBCONFIG_DQS_DDL, false).unwrap();
        let det = FunctionFlags::SQLITE_UTF8 | FunctionFlags::SQLITE_DETERMINISTIC;
        conn.create_scalar_function("md5", 1, det, |c| {
            let v = c.get_raw(0);
            Ok(match v {
                ValueRef::Null => None,
                ValueRef::Text(t) => Some(pseudo_md5(&String::from_utf8_lossy(t))),
                ValueRef::Integer(i) => Some(pseudo_md5(&i.to_string())),
                ValueRef::Real(f) => Some(pseudo_md5(&f.to_string())),
                ValueRef::Blob(b) => Some(pseudo_md5(&format!("{:?}", b))),
            })
        })
        .unwrap();
        let script = Arc::new(Mutex::new(RandomScript::default()));
        let s2 = script.clone();
        conn.create_scalar_function("random", 0, FunctionFlags::SQLITE_UTF8, move |_| {
            let mut s = s2.lock().unwrap();
            let i = s.calls;
            s.calls += 1;
            Ok(match s.constant {
                Some(c) => c,
                None => s.answers.get(i).cloned().unwrap_or(1.0),
            })
        })
        .unwrap();
        // PostgreSQL greatest / least: NULLs are ignored, NULL only if all are NULL
        for (name, greatest) in [("greatest", true), ("least", false)] {
            conn.create_scalar_function(name, -1, det, move |c| {
                let mut best: Option<SqlValue> = None;
                for i in 0..c.len() {
                    let v: SqlValue = c.get(i)?;
                    if matches!(v, SqlValue::Null) {
                        continue;
                    }
                    best = Some(match best {
                        None => v,
                        Some(b) => {
                            let ord = cmp_sql(&v, &b);
                            if (greatest && ord == std::cmp::Ordering::Greater) || (!greatest && ord == std::cmp::Ordering::Less) {
                                v
                            } else {
                                b
                            }
                        }
                    });
                }
                Ok(best.unwrap_or(SqlValue::Null))
            })
            .unwrap();
        }
        conn.create_scalar_function("char_length", 1, det, |c| {
            let v: Option<String> = c.get(0)?;
            Ok(v.map(|s| s.chars().count() as i64))
        })
        .unwrap();
        conn.create_scalar_function("concat", -1, det, |c| {
            let mut out = String::new();
            for i in 0..c.len() {
                match c.get_raw(i) {
                    ValueRef::Null => {}
                    ValueRef::Text(t) => out.push_str(&String::from_utf8_lossy(t)),
                    ValueRef::Integer(i) => out.push_str(&i.to_string()),
                    ValueRef::Real(f) => out.push_str(&f.to_string()),
                    ValueRef::Blob(_) => {}
                }
            }
            Ok(out)
        })
        .unwrap();
        for (name, sample, sqrt) in [
            ("variance", true, false),
            ("var_samp", true, false),
            ("var_pop", false, false),
            ("stddev", true, true),
            ("stddev_samp", true, true),
            ("stddev_pop", false, true),
        ] {
            conn.create_aggregate_function(name, 1, det, VarAgg { sample, sqrt }).unwrap();
        }
        Engine { conn, script }
    }

    pub fn set_script(&self, answers: Vec<f64>, constant: Option<f64>) {
        let mut s = self.script.lock().unwrap();
        s.answers = answers;
        s.constant = constant;
        s.calls = 0;
    }
    pub fn random_calls(&self) -> usize {
        self.script.lock().unwrap().calls
    }

    pub fn exec(&self, sql: &str) -> Result<(), String> {
        self.conn.execute_batch(sql).map_err(|e| e.to_string())
    }

    pub fn query(&self, sql: &str) -> Result<Table, String> {
        let mut st = self.conn.prepare_cached(sql).map_err(|e| e.to_string())?;
        let n = st.column_count();
        let cols: Vec<String> = (0..n).map(|i| st.column_name(i).unwrap_or("?").to_string()).collect();
        let mut rows = vec![];
        let mut q = st.query([]).map_err(|e| e.to_string())?;
        loop {
            match q.next() {
                Ok(Some(r)) => rows.push((0..n).map(|i| cell_of(r.get_ref(i).unwrap())).collect()),
                Ok(None) => break,
                Err(e) => return Err(e.to_string()),
            }
        }
        Ok(Table { cols, rows })
    }

    /// (re)create the base tables and load the rows
    pub fn load(&self, tables: &[(String, Vec<String>, Vec<Vec<Cell>>)]) -> Result<(), String> {
        let mut sql = String::new();
        for (name, cols, rows) in tables {
            sql.push_str(&format!("DROP TABLE IF EXISTS \"{}\"; CREATE TABLE \"{}\" ({});", name, name, cols.iter().map(|c| format!("\"{}\"", c)).collect::<Vec<_>>().join(", ")));
            if !rows.is_empty() {
                sql.push_str(&format!(
                    "INSERT INTO \"{}\" VALUES {};",
                    name,
                    rows.iter().map(|r| format!("({})", r.iter().map(|c| c.sql()).collect::<Vec<_>>().join(","))).collect::<Vec<_>>().join(",")
                ));
            }
        }
        self.exec(&sql)
    }

    /// Node-by-node materialisation: one temp table per CTE of the rendered relation, in order.
    /// Returns the final table and every intermediate one by CTE name.
    pub fn materialise(&self, rel: &Relation) -> Result<(Table, BTreeMap<String, Table>, Vec<String>), String> {
        let q = ast::Query::from(rel);
        self.materialise_query(&q)
    }

    pub fn materialise_query(&self, q: &ast::Query) -> Result<(Table, BTreeMap<String, Table>, Vec<String>), String> {
        let ctes = q.with.as_ref().map(|w| w.cte_tables.clone()).unwrap_or_default();
        let mut all = BTreeMap::new();
        let mut order = vec![];
        let mut drop = String::new();
        for cte in ctes.iter() {
            let name = cte.alias.name.value.clone();
            let cols: Vec<String> = cte.alias.columns.iter().map(|c| format!("\"{}\"", c.value.replace('"', "\"\""))).collect();
            let mut body = cte.query.to_string();
            // `SELECT * FROM (VALUES ...) AS t(c)` is not SQLite syntax: insert the VALUES directly
            if let ast::SetExpr::Select(sel) = cte.query.body.as_ref() {
                if let Some(twj) = sel.from.first() {
                    if let ast::TableFactor::Derived { subquery, .. } = &twj.relation {
                        if matches!(subquery.body.as_ref(), ast::SetExpr::Values(_)) {
                            body = subquery.to_string();
                        }
                    }
                }
            }
            let qn = name.replace('"', "\"\"");
            let ddl = if cols.is_empty() {
                format!("DROP TABLE IF EXISTS temp.\"{qn}\"; CREATE TEMP TABLE \"{qn}\" AS {body};")
            } else {
                format!("DROP TABLE IF EXISTS temp.\"{qn}\"; CREATE TEMP TABLE \"{qn}\" ({}); INSERT INTO \"{qn}\" {body};", cols.join(", "))
            };
            self.exec(&ddl).map_err(|e| format!("node {name}: {e} :: {}", body.chars().take(300).collect::<String>()))?;
            let t = self.query(&format!("SELECT * FROM temp.\"{qn}\""))?;
            all.insert(name.clone(), t);
            drop.push_str(&format!("DROP TABLE IF EXISTS temp.\"{qn}\";"));
            order.push(name);
        }
        // the final select
        let mut final_q = q.clone();
        final_q.with = None;
        let res = self.query(&final_q.to_string());
        // the statement cache holds prepared statements on the temp tables: clear before dropping
        self.conn.flush_prepared_statement_cache();
        let _ = self.exec(&drop);
        res.map(|t| (t, all, order))
    }
}

/// A materialisation plan: the temp tables of a rendered relation are created once, then every
/// run only does `DELETE` + `INSERT ... <node body>` per node with cached prepared statements.
pub struct Plan {
    pub nodes: Vec<(String, String, String)>, // (name, delete sql, insert sql)
    pub final_sql: String,
    drop_sql: String,
}

impl Engine {
    pub fn plan(&self, rel: &Relation) -> Result<Plan, String> {
        let q = ast::Query::from(rel);
        let ctes = q.with.as_ref().map(|w| w.cte_tables.clone()).unwrap_or_default();
        let mut nodes = vec![];
        let mut drop_sql = String::new();
        for cte in ctes.iter() {
            let name = cte.alias.name.value.clone();
            let cols: Vec<String> = cte.alias.columns.iter().map(|c| format!("\"{}\"", c.value.replace('"', "\"\""))).collect();
            let mut body = cte.query.to_string();
            if let ast::SetExpr::Select(sel) = cte.query.body.as_ref() {
                if let Some(twj) = sel.from.first() {
                    if let ast::TableFactor::Derived { subquery, .. } = &twj.relation {
                        if matches!(subquery.body.as_ref(), ast::SetExpr::Values(_)) {
                            body = subquery.to_string();
                        }
                    }
                }
            }
            let qn = name.replace('"', "\"\"");
            if cols.is_empty() {
                return Err(format!("node {name} has no column list"));
            }
            self.exec(&format!("DROP TABLE IF EXISTS temp.\"{qn}\"; CREATE TEMP TABLE \"{qn}\" ({});", cols.join(", ")))
                .map_err(|e| format!("node {name}: {e}"))?;
            drop_sql.push_str(&format!("DROP TABLE IF EXISTS temp.\"{qn}\";"));
            nodes.push((name, format!("DELETE FROM temp.\"{qn}\""), format!("INSERT INTO temp.\"{qn}\" {body}")));
        }
        let mut final_q = q.clone();
        final_q.with = None;
        Ok(Plan { nodes, final_sql: final_q.to_string(), drop_sql })
    }

    /// run a plan on the currently loaded database; returns the final table and the tables of the
    /// requested nodes (all nodes when `want` is None)
    pub fn run_plan(&self, plan: &Plan, want: Option<&[String]>) -> Result<(Table, BTreeMap<String, Table>), String> {
        let mut all = BTreeMap::new();
        for (name, del, ins) in &plan.nodes {
            self.conn.prepare_cached(del).and_then(|mut s| s.execute([])).map_err(|e| format!("node {name}: {e}"))?;
            self.conn.prepare_cached(ins).and_then(|mut s| s.execute([])).map_err(|e| format!("node {name}: {e} :: {}", ins.chars().take(200).collect::<String>()))?;
            if want.map_or(true, |w| w.iter().any(|x| x == name)) {
                all.insert(name.clone(), self.query(&format!("SELECT * FROM temp.\"{}\"", name.replace('"', "\"\"")))?);
            }
        }
        let t = self.query(&plan.final_sql)?;
        Ok((t, all))
    }

    pub fn drop_plan(&self, plan: &Plan) {
        self.conn.flush_prepared_statement_cache();
        let _ = self.exec(&plan.drop_sql);
    }
}

fn cmp_sql(a: &SqlValue, b: &SqlValue) -> std::cmp::Ordering {
    use std::cmp::Ordering::*;
    let num = |v: &SqlValue| match v {
        SqlValue::Integer(i) => Some(*i as f64),
        SqlValue::Real(f) => Some(*f),
        _ => None,
    };
    match (num(a), num(b)) {
        (Some(x), Some(y)) => x.partial_cmp(&y).unwrap_or(Equal),
        (Some(_), None) => Less,
        (None, Some(_)) => Greater,
        _ => match (a, b) {
            (SqlValue::Text(x), SqlValue::Text(y)) => x.cmp(y),
            _ => Equal,
        },
    }
}

/// start-up self test of the shim against closed forms (a failure is a machinery error)
pub fn self_test() -> Result<(), String> {
    let e = Engine::new();
    let t = e.query("SELECT greatest(1, NULL, 3.5), least(2, 1), char_length('héé'), concat('a', 1, NULL), variance(x), stddev(x), var_pop(x) FROM (SELECT 1 AS x UNION ALL SELECT 2 UNION ALL SELECT 4)")?;
    let r = &t.rows[0];
    let expect = [3.5, 1.0, 3.0];
    for (i, x) in expect.iter().enumerate() {
        if !r[i].close(&Cell::Real(*x), 1e-12) {
            return Err(format!("shim self-test: column {i} = {:?}", r[i]));
        }
    }
    if r[3] != Cell::Text("a1".into()) {
        return Err(format!("shim self-test: concat = {:?}", r[3]));
    }
    // sample variance of {1,2,4} = 7/3, population = 14/9
    if !r[4].close(&Cell::Real(7.0 / 3.0), 1e-12) || !r[5].close(&Cell::Real((7.0f64 / 3.0).sqrt()), 1e-12) || !r[6].close(&Cell::Real(14.0 / 9.0), 1e-12) {
        return Err(format!("shim self-test: variance/stddev = {:?} {:?} {:?}", r[4], r[5], r[6]));
    }
    e.set_script(vec![0.25, 0.5], None);
    let t = e.query("SELECT random(), random(), random()")?;
    if t.rows[0] != vec![Cell::Real(0.25), Cell::Real(0.5), Cell::Real(1.0)] {
        return Err(format!("shim self-test: scripted random = {:?}", t.rows[0]));
    }
    // double-quoted identifiers that do not resolve must be errors, not strings
    if e.query("SELECT \"nope\" FROM (SELECT 1 AS x)").is_ok() {
        return Err("shim self-test: DQS fallback is still on".into());
    }
    Ok(())
}
