//! Reading the mechanisms out of a DP-rewritten relation (IR): noised columns with their sigma, the
//! clipping bound C behind each, threshold filters (tau), contribution limits (Cu).
//! A failure to read what the behavioural measurements say must be there is a machinery error
//! (exit 2), never a verdict.
use qrlew::data_type::value::Value;
use qrlew::expr::{function::Function, Expr};
use qrlew::relation::{Relation, Variant as _};
use std::collections::BTreeMap;

#[derive(Clone, Debug)]
pub struct NoisedColumn {
    /// name of the Map that adds the noise
    pub node: String,
    pub column: String,
    pub sigma: f64,
    /// the relation the noise map reads (pre-noise values)
    pub input_node: String,
    /// the column of the input holding the pre-noise value
    pub input_column: String,
    /// clipping bound C behind this column, when a scale factor 1/greatest(1, norm/C) feeds it
    pub clip: Option<f64>,
}

#[derive(Clone, Debug)]
pub struct Threshold {
    /// the Map carrying the filter `count > tau`
    pub node: String,
    pub column: String,
    pub tau: f64,
}

#[derive(Clone, Debug)]
pub struct ContributionLimit {
    pub node: String,
    pub cu: f64,
}

#[derive(Clone, Debug, Default)]
pub struct DpIr {
    pub noised: Vec<NoisedColumn>,
    pub thresholds: Vec<Threshold>,
    pub limits: Vec<ContributionLimit>,
    /// scale-factor literals found: value column -> C (by node)
    pub clips: Vec<(String, String, f64)>,
    pub nodes: Vec<(String, &'static str)>,
}

fn num(v: &Value) -> Option<f64> {
    match v {
        Value::Float(f) => Some(**f),
        Value::Integer(i) => Some(**i as f64),
        _ => None,
    }
}

fn contains_random(e: &Expr) -> bool {
    match e {
        Expr::Function(f) => matches!(f.function(), Function::Random(_)) || f.arguments().iter().any(contains_random),
        Expr::Aggregate(a) => contains_random(a.argument()),
        _ => false,
    }
}

/// `x + sigma * noise` somewhere in the expression: (sigma, the column x reads)
fn find_noise(e: &Expr) -> Option<(f64, Option<String>)> {
    if let Expr::Function(f) = e {
        let args = f.arguments();
        if f.function() == Function::Plus && args.len() == 2 {
            if let Expr::Function(m) = &args[1] {
                let margs = m.arguments();
                if m.function() == Function::Multiply && margs.len() == 2 && contains_random(&margs[1]) {
                    if let Expr::Value(v) = &margs[0] {
                        if let Some(s) = num(v) {
                            return Some((s, first_column(&args[0])));
                        }
                    }
                }
            }
        }
        for a in args.iter() {
            if let Some(r) = find_noise(a) {
                return Some(r);
            }
        }
    }
    None
}

fn first_column(e: &Expr) -> Option<String> {
    match e {
        Expr::Column(c) => c.last().ok().map(|s| s.to_string()),
        Expr::Function(f) => f.arguments().iter().find_map(first_column),
        _ => None,
    }
}

/// `1 / greatest(1, x / C)` (each division wrapped by the library in a CASE guarding a zero
/// denominator): C. Found anywhere inside the expression.
fn find_scale_factor(e: &Expr) -> Option<f64> {
    fn inner_divisor(e: &Expr) -> Option<f64> {
        if let Expr::Function(f) = e {
            let a = f.arguments();
            if f.function() == Function::Divide && a.len() == 2 {
                if let Expr::Value(c) = &a[1] {
                    if let Some(x) = num(c) {
                        return Some(x);
                    }
                }
            }
            return a.iter().find_map(inner_divisor);
        }
        None
    }
    fn has_greatest(e: &Expr) -> bool {
        match e {
            Expr::Function(f) => f.function() == Function::Greatest || f.arguments().iter().any(has_greatest),
            _ => false,
        }
    }
    if let Expr::Function(f) = e {
        let a = f.arguments();
        if f.function() == Function::Divide && a.len() == 2 {
            if let Expr::Value(one) = &a[0] {
                if num(one) == Some(1.0) && has_greatest(&a[1]) {
                    return inner_divisor(&a[1]);
                }
            }
        }
        return a.iter().find_map(find_scale_factor);
    }
    None
}

fn find_gt_literal(e: &Expr, out: &mut Vec<(String, f64)>) {
    if let Expr::Function(f) = e {
        let a = f.arguments();
        match f.function() {
            Function::Gt | Function::GtEq if a.len() == 2 => {
                if let (Expr::Column(c), Expr::Value(v)) = (&a[0], &a[1]) {
                    if let (Ok(name), Some(x)) = (c.last(), num(v)) {
                        out.push((name.to_string(), x));
                    }
                }
            }
            Function::LtEq | Function::Lt if a.len() == 2 => {
                if let (Expr::Column(c), Expr::Value(v)) = (&a[0], &a[1]) {
                    if let (Ok(name), Some(x)) = (c.last(), num(v)) {
                        out.push((format!("<={}", name), x));
                    }
                }
            }
            _ => {}
        }
        for x in a.iter() {
            find_gt_literal(x, out);
        }
    }
}

/// follow a column through maps that merely rename it, until the `_CLIPPED_` column (or as far as
/// plain renamings go)
fn trace_plain_column(r: &Relation, name: &str) -> String {
    if name.starts_with("_CLIPPED_") {
        return name.to_string();
    }
    if let Relation::Map(m) = r {
        for (f, e) in m.named_exprs() {
            if f == name {
                if let Expr::Column(c) = e {
                    if let Ok(inner) = c.last() {
                        return trace_plain_column(m.input(), inner);
                    }
                }
            }
        }
    }
    name.to_string()
}

fn kind(r: &Relation) -> &'static str {
    match r {
        Relation::Table(_) => "table",
        Relation::Map(_) => "map",
        Relation::Reduce(_) => "reduce",
        Relation::Join(_) => "join",
        Relation::Set(_) => "set",
        Relation::Values(_) => "values",
    }
}

fn walk<'a>(r: &'a Relation, seen: &mut BTreeMap<String, &'a Relation>) {
    if seen.contains_key(r.name()) {
        return;
    }
    seen.insert(r.name().to_string(), r);
    for i in r.inputs() {
        walk(i, seen);
    }
}

pub fn analyse(rel: &Relation) -> DpIr {
    let mut seen = BTreeMap::new();
    walk(rel, &mut seen);
    let mut ir = DpIr::default();
    for (name, r) in &seen {
        ir.nodes.push((name.clone(), kind(r)));
        if let Relation::Map(m) = r {
            for (fname, e) in m.named_exprs() {
                if let Some(c) = find_scale_factor(e) {
                    ir.clips.push((name.clone(), fname.to_string(), c));
                }
            }
            if let Some(f) = m.filter() {
                let mut lits = vec![];
                find_gt_literal(f, &mut lits);
                for (c, x) in lits {
                    if let Some(col) = c.strip_prefix("<=") {
                        if col.contains("CONTRIBUTION_INDEX") {
                            ir.limits.push(ContributionLimit { node: name.clone(), cu: x });
                        }
                    } else {
                        ir.thresholds.push(Threshold { node: name.clone(), column: c, tau: x });
                    }
                }
            }
        }
    }
    // noise maps, with the clipping bound behind each noised column
    for (name, r) in &seen {
        if let Relation::Map(m) = r {
            for (fname, e) in m.named_exprs() {
                if let Some((sigma, col)) = find_noise(e) {
                    let input = m.input();
                    let input_column = col.unwrap_or_else(|| fname.to_string());
                    // the input is a Reduce summing `_CLIPPED_<value>`: the scale factor field is `<value>`
                    let mut clip = None;
                    if let Relation::Reduce(red) = input {
                        for (an, agg) in red.named_aggregates() {
                            if std::env::var("QV_DEBUG_DPIR").is_ok() {
                                eprintln!("reduce {} agg {} = {:?} col {:?}", red.name(), an, agg.aggregate(), agg.column_name());
                            }
                            if an == input_column {
                                if let Ok(c) = agg.column_name() {
                                    // the reduce reads a projection that renames `_CLIPPED_<value>`
                                    let c = trace_plain_column(red.input(), c);
                                    let c = c.as_str();
                                    let value = c.strip_prefix("_CLIPPED_").unwrap_or(c);
                                    // the scale factor literal in an ancestor of this reduce
                                    let mut anc = BTreeMap::new();
                                    walk(input, &mut anc);
                                    // (the factor is a column named after the value, or is applied in place in the
                                    // expression of the `_CLIPPED_<value>` column itself)
                                    clip = ir.clips.iter().find(|(n, f, _)| anc.contains_key(n) && (f == value || f == c)).map(|x| x.2);
                                }
                            }
                        }
                    }
                    ir.noised.push(NoisedColumn { node: name.clone(), column: fname.to_string(), sigma, input_node: input.name().to_string(), input_column, clip });
                }
            }
        }
    }
    // a threshold is a filter on a noised column (user WHERE clauses also compare columns to literals)
    let noised_names: Vec<String> = ir.noised.iter().map(|n| n.column.clone()).collect();
    ir.thresholds.retain(|t| noised_names.contains(&t.column));
    ir
}

/// flatten a DpEvent into (gaussian noise multipliers, (epsilon, delta) entries)
pub fn flatten_event(e: &qrlew::differential_privacy::dp_event::DpEvent, g: &mut Vec<f64>, ed: &mut Vec<(f64, f64)>) {
    use qrlew::differential_privacy::dp_event::DpEvent as E;
    match e {
        E::NoOp => {}
        E::Gaussian { noise_multiplier } => g.push(*noise_multiplier),
        E::Laplace { noise_multiplier } => g.push(-*noise_multiplier),
        E::EpsilonDelta { epsilon, delta } => ed.push((*epsilon, *delta)),
        E::Composed { events } => {
            for x in events {
                flatten_event(x, g, ed)
            }
        }
        E::PoissonSampled { event, .. } | E::SampledWithReplacement { event, .. } | E::SampledWithoutReplacement { event, .. } => flatten_event(event, g, ed),
    }
}
