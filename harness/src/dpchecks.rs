//! Checks on the differential-privacy rewriting, executed node by node on SQLite:
//! C01 (true sensitivity <= clip bound), C03 (privacy accounting), C04 (key release),
//! C09 (exactness when noise and clipping are inactive).
use crate::common::*;
use crate::dpir::{analyse, flatten_event, DpIr};
use crate::sqlite::{Cell, Engine, Table};
use crate::world::{show_db, Db, World};
use qrlew::builder::With;
use qrlew::differential_privacy::DpParameters;
use qrlew::hierarchy::Hierarchy;
use qrlew::relation::Relation;
use qrlew::sql::parse;
use serde_json::json;
use std::collections::BTreeMap;
use std::sync::Arc;

#[derive(Clone, Debug)]
pub struct DpQuery {
    pub sql: String,
    pub tables: Vec<&'static str>,
    pub tags: Vec<&'static str>,
}

fn dq(sql: &str, tables: &[&'static str], tags: &[&'static str]) -> DpQuery {
    DpQuery { sql: sql.to_string(), tables: tables.to_vec(), tags: tags.to_vec() }
}

/// aggregation queries the DP compiler is asked to rewrite
pub fn dp_queries(tier: Tier) -> Vec<DpQuery> {
    let u: &[&'static str] = &["users"];
    let o: &[&'static str] = &["users", "orders"];
    let i: &[&'static str] = &["users", "orders", "items"];
    let mut v = vec![
        dq("SELECT count(*) AS c FROM users", u, &["ungrouped", "count"]),
        dq("SELECT sum(age) AS s FROM users", u, &["ungrouped", "sum"]),
        dq("SELECT count(age) AS c, sum(age) AS s, avg(age) AS a FROM users", u, &["ungrouped", "count", "sum", "avg"]),
        dq("SELECT city, count(*) AS c FROM users GROUP BY city", u, &["public-key", "count"]),
        dq("SELECT city, sum(age) AS s, avg(age) AS a FROM users GROUP BY city", u, &["public-key", "sum", "avg"]),
        dq("SELECT city, count(*) AS c FROM users WHERE age > 18 GROUP BY city", u, &["public-key", "count", "filter"]),
        dq("SELECT variance(age) AS v, stddev(age) AS sd FROM users", u, &["ungrouped", "var", "std"]),
        dq("SELECT city, variance(age) AS v FROM users GROUP BY city", u, &["public-key", "var"]),
        dq("SELECT age, count(*) AS c FROM users GROUP BY age", u, &["private-key", "count"]),
        dq("SELECT count(*) AS c, sum(amount) AS s FROM orders", o, &["ungrouped", "count", "sum", "fk-path", "nullable"]),
        dq("SELECT avg(amount) AS a FROM orders", o, &["ungrouped", "avg", "fk-path", "nullable"]),
        dq("SELECT user_id, sum(amount) AS s FROM orders GROUP BY user_id", o, &["private-key", "sum", "fk-path", "nullable"]),
        dq("SELECT user_id, count(amount) AS c FROM orders WHERE amount > 5 GROUP BY user_id", o, &["private-key", "count", "fk-path", "filter"]),
        dq("SELECT u.city, sum(o.amount) AS s FROM users u JOIN orders o ON u.id = o.user_id GROUP BY u.city", o, &["public-key", "sum", "join"]),
        dq("SELECT u.city, count(o.id) AS c FROM users u JOIN orders o ON u.id = o.user_id GROUP BY u.city", o, &["public-key", "count", "join"]),
        dq("SELECT count(DISTINCT age) AS cd FROM users", u, &["ungrouped", "count-distinct"]),
        dq("SELECT sum(DISTINCT age) AS sd, count(age) AS c FROM users", u, &["ungrouped", "sum-distinct", "count"]),
        dq("SELECT city, count(DISTINCT age) AS cd FROM users GROUP BY city", u, &["public-key", "count-distinct"]),
        dq("SELECT count(DISTINCT amount) AS cd, sum(amount) AS s FROM orders", o, &["ungrouped", "count-distinct", "sum", "fk-path"]),
        dq("SELECT sum(a) AS s FROM (SELECT age AS a FROM users WHERE id > 1) AS t", u, &["ungrouped", "sum", "subquery"]),
        dq("SELECT sum(age) AS s FROM (SELECT age FROM users LIMIT 2) AS t", u, &["ungrouped", "sum", "limit-below"]),
        dq("SELECT count(*) AS c FROM (SELECT DISTINCT age FROM users) AS t", u, &["ungrouped", "count", "distinct-below"]),
        dq("SELECT count(*) AS c FROM (SELECT id FROM users UNION ALL SELECT user_id FROM orders) AS t", o, &["ungrouped", "count", "setop-below"]),
        dq("SELECT r.zone, count(*) AS c FROM users u JOIN ref r ON u.city = r.city GROUP BY r.zone", &["users", "ref"], &["private-key", "count", "public-join"]),
        dq("SELECT count(*) AS c FROM users u LEFT JOIN ref r ON u.city = r.city", &["users", "ref"], &["ungrouped", "count", "public-join", "outer"]),
        dq("SELECT count(*) AS c FROM ref r LEFT JOIN users u ON u.city = r.city", &["users", "ref"], &["ungrouped", "count", "public-join", "outer-public-preserved"]),
    ];
    // every ordered pair of {count, sum, avg} over a never-NULL and a nullable column of the same table (both orders):
    // aggregates of one Reduce that do not count the same rows
    for a1 in ["count", "sum", "avg"] {
        for a2 in ["count", "sum", "avg"] {
            v.push(DpQuery { sql: format!("SELECT {a1}(id) AS x, {a2}(amount) AS y FROM orders"), tables: o.to_vec(), tags: vec!["ungrouped", "two-columns", "fk-path", "nullable"] });
            v.push(DpQuery { sql: format!("SELECT {a1}(amount) AS x, {a2}(id) AS y FROM orders"), tables: o.to_vec(), tags: vec!["ungrouped", "two-columns", "fk-path", "nullable"] });
        }
    }
    // two aggregates over one column followed by an aggregate over another column with a different range (both
    // assignments of the columns): per-column clipping bounds must not be mixed up
    for (c1, c2) in [("id", "amount"), ("amount", "id")] {
        for (a1, a2) in [("count", "avg"), ("avg", "count"), ("count", "sum"), ("sum", "avg")] {
            for a3 in ["sum", "count", "avg"] {
                v.push(DpQuery { sql: format!("SELECT {a1}({c1}) AS x, {a2}({c1}) AS y, {a3}({c2}) AS z FROM orders"), tables: o.to_vec(), tags: vec!["ungrouped", "three-aggregates", "fk-path", "nullable"] });
            }
        }
    }
    v.push(dq("SELECT count(*) AS c, count(amount) AS ca, avg(amount) AS a FROM orders", o, &["ungrouped", "two-columns", "fk-path", "nullable"]));
    v.push(dq("SELECT u.city, count(o.amount) AS ca, count(u.age) AS cu FROM users u JOIN orders o ON u.id = o.user_id GROUP BY u.city", o, &["public-key", "two-columns", "join", "nullable"]));
    if tier == Tier::Thorough {
        v.extend(vec![
            dq("SELECT qty, sum(price) AS s FROM items GROUP BY qty", i, &["public-key", "sum", "fk-path-2"]),
            dq("SELECT count(*) AS c, avg(price) AS a FROM items", i, &["ungrouped", "count", "avg", "fk-path-2"]),
            dq("SELECT city, age, count(*) AS c FROM users GROUP BY city, age", u, &["mixed-keys", "count"]),
            dq("SELECT city, stddev(age) AS sd FROM users GROUP BY city", u, &["public-key", "std"]),
            dq("SELECT sum(age) + count(*) AS m FROM users", u, &["ungrouped", "sum", "count", "mixed-expr"]),
            dq("SELECT age > 18 AS old, count(*) AS c FROM users GROUP BY age > 18", u, &["computed-key", "count"]),
            dq("SELECT o.user_id, sum(i.price) AS s FROM orders o JOIN items i ON o.id = i.order_id GROUP BY o.user_id", i, &["private-key", "sum", "join", "fk-path-2"]),
            dq("SELECT sum(c) AS t FROM (SELECT city, count(*) AS c FROM users GROUP BY city) AS x", u, &["nested-dp"]),
        ]);
    }
    v
}

fn with_owners(tables: &[&'static str]) -> Vec<&'static str> {
    // the tables whose rows decide ownership along the foreign-key path must be enumerated too
    let mut t: Vec<&'static str> = tables.to_vec();
    if t.contains(&"items") && !t.contains(&"orders") {
        t.push("orders");
    }
    if t.contains(&"orders") && !t.contains(&"users") {
        t.push("users");
    }
    let order = ["users", "orders", "items", "ref"];
    t.sort_by_key(|x| order.iter().position(|o| o == x).unwrap_or(9));
    t
}

/// Composed aggregation programs (sqlgen2): an aggregate constructor on top of every level-1 term.
/// quick: {A2, A4} over {P2, P7, A3, A4, A5, A10, D2, O1} of users / orders and over the inner / left joins of users
/// and orders; thorough: every depth-2 term whose top constructor is an aggregate, and every depth-2 term that
/// contains an aggregate below a projection / filter / DISTINCT
pub fn dp_composed(tier: Tier) -> Vec<DpQuery> {
    let mut out = vec![];
    // depth 1: an aggregate over a join of two base tables (every kind, every ON clause of the alphabet: extra
    // conditions, OR of equalities, inequalities; parent-child, child-child and self joins)
    for r in crate::sqlgen2::level1_binary() {
        let is_agg = r.term.contains(".s3(") || r.term.contains(".s4(");
        let protected_pair = r.tables.iter().all(|t| matches!(*t, "users" | "orders" | "items" | "ref")) && r.tables.iter().any(|t| *t != "ref");
        if !is_agg || !protected_pair {
            continue;
        }
        if tier == Tier::Quick {
            // quick: users / orders pairs (parent-child both ways, self joins), inner and left, three ON shapes
            let pair_ok = r.tables.iter().all(|t| matches!(*t, "users" | "orders"));
            let kind_ok = r.tags.contains(&"inner") || r.tags.contains(&"left");
            let on_ok = r.tags.contains(&"on-eq") || r.tags.contains(&"on-eq-and-cmp") || r.tags.contains(&"on-eq-or-eq");
            // plus the right / full joins on the plain equality (rows of the non-preserved side without a partner)
            let outer_ok = (r.tags.contains(&"right") || r.tags.contains(&"full")) && (r.tags.contains(&"on-eq") || r.tags.contains(&"on-eq-and-cmp"));
            // an equality between columns that are not join partners (rows of different owners), every outer kind
            let other_pair_ok = r.tags.contains(&"on-eq-other-pair") && !r.tags.contains(&"inner") && !r.tags.contains(&"cross") && r.tables.len() == 2 && r.tables[0] != r.tables[1];
            // a public table (ref) joined with users, either side, every outer kind, plain equality
            let public_pair_ok = r.tables.contains(&"ref") && r.tables.contains(&"users") && r.tags.contains(&"on-eq") && (r.tags.contains(&"left") || r.tags.contains(&"right") || r.tags.contains(&"full"));
            if !((pair_ok && ((kind_ok && on_ok) || outer_ok || other_pair_ok)) || public_pair_ok) {
                continue;
            }
        }
        let mut tags: Vec<&'static str> = vec!["composed", "agg-over-join"];
        for t in &r.tags {
            if matches!(*t, "ungrouped" | "grouped" | "left" | "right" | "full" | "cross" | "inner" | "on-eq" | "on-eq-and-cmp" | "on-eq-or-eq" | "on-eq-other-pair" | "on-lt" | "on-eq-reversed" | "using") && !tags.contains(t) {
                tags.push(t);
            }
        }
        out.push(DpQuery { sql: r.sql.clone(), tables: with_owners(&r.tables), tags });
    }
    for r in crate::sqlgen2::compose(2) {
        if r.depth != 2 || r.tables.iter().any(|t| !matches!(*t, "users" | "orders" | "items" | "ref")) || r.tables.iter().all(|t| *t == "ref") {
            continue;
        }
        if r.sql.starts_with("WITH") {
            continue; // the CTE embedding is the same relation as the derived-table one
        }
        let top = r.term.split('(').next().unwrap_or("").to_string();
        let inner = r.term[top.len() + 1..].to_string();
        let top_is_agg = top.starts_with('A');
        let has_agg = top_is_agg || inner.starts_with('A') || inner.contains("(A") || inner.contains(".s3(") || inner.contains(".s4(");
        if !has_agg {
            continue;
        }
        // C01 / C09 decide the aggregation at the TOP of the program: projections, filters and joins stacked on a
        // released aggregate are post-processing (their flows are C02's subject) and their columns are not aggregates
        // of the protected rows any more
        if !top_is_agg {
            continue;
        }
        if tier == Tier::Quick {
            let inner_ok = ["P2(", "P7(", "A3(", "A4(", "A5(", "A10(", "D2(", "O1("].iter().any(|w| inner.starts_with(w)) && (inner.contains("(users)") || inner.contains("(orders)"))
                || (inner.starts_with("J.inner.eq.s2(") || inner.starts_with("J.left.eq.s2(")) && (inner.contains("(users, orders)") || inner.contains("(orders, users)"));
            if !(matches!(top.as_str(), "A2" | "A4") && inner_ok) {
                continue;
            }
        }
        let mut tags: Vec<&'static str> = vec!["composed"];
        tags.push(if top_is_agg { "agg-on-top" } else { "agg-below" });
        for t in &r.tags {
            if matches!(*t, "ungrouped" | "grouped" | "join" | "limit" | "distinct" | "distinct-aggregate" | "key-not-projected" | "filter" | "setop" | "left" | "right" | "full" | "cross") && !tags.contains(t) {
                tags.push(t);
            }
        }
        out.push(DpQuery { sql: r.sql.clone(), tables: with_owners(&r.tables), tags });
    }
    out
}

/// C03 needs no database: every combination of 1-2 (thorough: 1-3) aggregates of the alphabet x
/// grouping (none / public key / private key / mixed) on a one-table and a foreign-key-path subject
pub fn c03_queries(tier: Tier) -> Vec<DpQuery> {
    let mut v = dp_queries(Tier::Thorough);
    let aggs: [(&str, &'static str); 8] = [
        ("count({x})", "count"), ("sum({x})", "sum"), ("avg({x})", "avg"), ("variance({x})", "var"), ("stddev({x})", "std"),
        ("count(DISTINCT {x})", "count-distinct"), ("sum(DISTINCT {x})", "sum-distinct"), ("avg(DISTINCT {x})", "avg-distinct"),
    ];
    // (table, tables read, group by, key tag, aggregated column)
    let subjects: [(&str, &'static [&'static str], &str, &'static str, &str); 6] = [
        ("users", &["users"], "", "ungrouped", "age"),
        ("users", &["users"], "city", "public-key", "age"),
        ("users", &["users"], "age", "private-key", "id"),
        ("users", &["users"], "city, age", "mixed-keys", "id"),
        ("orders", &["users", "orders"], "", "ungrouped", "amount"),
        ("orders", &["users", "orders"], "user_id", "private-key", "amount"),
    ];
    let max_k = tier.pick(2, 3);
    for (table, tables, keys, ktag, x) in subjects {
        let n = aggs.len();
        let mut subsets: Vec<Vec<usize>> = vec![];
        for a in 0..n {
            subsets.push(vec![a]);
            for b in a + 1..n {
                subsets.push(vec![a, b]);
                if max_k >= 3 {
                    for c in b + 1..n {
                        subsets.push(vec![a, b, c]);
                    }
                }
            }
        }
        for s in subsets {
            let items: Vec<String> = s.iter().enumerate().map(|(i, a)| format!("{} AS a{}", aggs[*a].0.replace("{x}", x), i)).collect();
            let mut tags: Vec<&'static str> = vec![ktag];
            tags.extend(s.iter().map(|a| aggs[*a].1));
            if tables.len() > 1 {
                tags.push("fk-path");
            }
            if s.iter().all(|a| *a >= 5) {
                tags.push("distinct-only");
            }
            let sql = if keys.is_empty() { format!("SELECT {} FROM {table}", items.join(", ")) } else { format!("SELECT {keys}, {} FROM {table} GROUP BY {keys}", items.join(", ")) };
            v.push(DpQuery { sql, tables: tables.to_vec(), tags });
        }
    }
    // aggregates of the GROUPING column itself next to aggregates of another column, plain and DISTINCT (each DISTINCT
    // column is rewritten as its own sub-aggregation and gets its own part of the budget)
    for (px, dx) in [("age", "id"), ("id", "age"), ("age", "age")] {
        for (pa, ptag) in [("count", "count"), ("sum", "sum"), ("avg", "avg")] {
            for (da, dtag) in [("count", "count-distinct"), ("sum", "sum-distinct")] {
                let sql = format!("SELECT age, {pa}({px}) AS a0, {da}(DISTINCT {dx}) AS a1 FROM users GROUP BY age");
                v.push(DpQuery { sql, tables: vec!["users"], tags: vec!["private-key", "aggregate-of-grouping-column", ptag, dtag] });
            }
        }
    }
    // joins and set operations of two aggregating sub-queries (the mechanisms of BOTH sides must be recorded)
    for r in crate::sqlgen2::compose(2) {
        let binary_top = r.term.starts_with("J.") || r.term.starts_with("S.");
        let args = r.term.splitn(2, '(').nth(1).unwrap_or("");
        let both_aggregate = args.starts_with('A') && args.contains(", A");
        if binary_top && both_aggregate && r.tables.iter().all(|t| matches!(*t, "users" | "orders")) && (r.term.contains(".eq.s1(") || r.term.contains(".eq.s2(") || r.term.starts_with("S.")) {
            v.push(DpQuery { sql: r.sql.clone(), tables: with_owners(&r.tables), tags: vec!["composed", "two-dp-subqueries", if r.term.starts_with("S.") { "setop" } else { "join" }] });
        }
    }
    // two DIFFERENT aggregating sub-queries with the same mechanism shape (the same number of noisy sums, both with or
    // both without thresholding), joined or united: their events are equal as values but both must be recorded
    {
        let u: &[&'static str] = &["users"];
        let o: &[&'static str] = &["users", "orders"];
        let pub_a = "SELECT city, count(*) AS c FROM users GROUP BY city";
        let pub_b = "SELECT city, count(*) AS c FROM users WHERE age > 18 GROUP BY city";
        let prv_a = "SELECT user_id, sum(amount) AS s FROM orders GROUP BY user_id";
        let prv_b = "SELECT user_id, sum(amount) AS s FROM orders WHERE amount > 5 GROUP BY user_id";
        let sc_a = "SELECT 1 * count(*) AS c FROM users";
        let sc_b = "SELECT 1 * count(age) AS c FROM users WHERE age > 18";
        let tags: &[&'static str] = &["composed", "two-dp-subqueries", "same-shape"];
        v.push(dq(&format!("SELECT a.city, a.c, b.c AS c2 FROM ({pub_a}) AS a JOIN ({pub_b}) AS b ON a.city = b.city"), u, tags));
        v.push(dq(&format!("SELECT a.city, a.c, b.c AS c2 FROM ({pub_a}) AS a LEFT JOIN ({pub_b}) AS b ON a.city = b.city"), u, tags));
        v.push(dq(&format!("{pub_a} UNION ALL {pub_b}"), u, tags));
        v.push(dq(&format!("{pub_a} UNION {pub_b}"), u, tags));
        v.push(dq(&format!("SELECT a.user_id, a.s, b.s AS s2 FROM ({prv_a}) AS a JOIN ({prv_b}) AS b ON a.user_id = b.user_id"), o, tags));
        v.push(dq(&format!("{prv_a} UNION ALL {prv_b}"), o, tags));
        v.push(dq(&format!("SELECT a.c, b.c AS c2 FROM ({sc_a}) AS a CROSS JOIN ({sc_b}) AS b"), u, tags));
        v.push(dq(&format!("{sc_a} UNION ALL {sc_b}"), u, tags));
        v.push(dq(&format!("WITH a AS ({pub_a}), b AS ({pub_b}) SELECT a.city, a.c + b.c AS t FROM a JOIN b ON a.city = b.city"), u, tags));
    }
    // keys only
    v.push(dq("SELECT age FROM users GROUP BY age", &["users"], &["private-key", "keys-only"]));
    v.push(dq("SELECT DISTINCT user_id FROM orders", &["users", "orders"], &["private-key", "keys-only", "fk-path"]));
    v
}

pub fn c03_param_grid(tier: Tier) -> Vec<(String, DpParameters)> {
    let mut out = vec![];
    let eps: &[f64] = tier.pick(&[1.0, 0.1][..], &[0.01, 0.1, 1.0, 5.0][..]);
    let deltas: &[f64] = tier.pick(&[1e-3][..], &[1e-3, 1e-6, 1e-9][..]);
    let shares: &[f64] = tier.pick(&[0.5, 0.1][..], &[0.5, 0.1, 0.9][..]);
    let mults: &[(f64, f64)] = tier.pick(&[(100.0, 1.0)][..], &[(100.0, 1.0), (1.0, 1.0), (100.0, 0.1)][..]);
    let cus: &[u64] = tier.pick(&[1, 5][..], &[1, 5][..]);
    for e in eps {
        for d in deltas {
            for sh in shares {
                for (m, ms) in mults {
                    for cu in cus {
                        out.push((format!("eps={e},delta={d},mult={m},mult_share={ms},cu={cu},tau_share={sh}"), DpParameters::new(*e, *d, *sh, *m, *ms, *cu)));
                    }
                }
            }
        }
    }
    out
}

pub fn dp_param_grid(tier: Tier) -> Vec<(String, DpParameters)> {
    let mut out = vec![];
    let eps: &[f64] = match tier {
        Tier::Quick => &[1.0],
        Tier::Thorough => &[0.1, 1.0],
    };
    let deltas: &[f64] = match tier {
        Tier::Quick => &[1e-3],
        Tier::Thorough => &[1e-3],
    };
    let mults: &[(f64, f64)] = match tier {
        Tier::Quick => &[(100.0, 1.0), (1.0, 1.0)],
        Tier::Thorough => &[(100.0, 1.0), (1.0, 1.0), (100.0, 0.1)],
    };
    let cus: &[u64] = match tier {
        Tier::Quick => &[1],
        Tier::Thorough => &[1, 5],
    };
    let shares: &[f64] = match tier {
        Tier::Quick => &[0.5],
        Tier::Thorough => &[0.5],
    };
    for e in eps {
        for d in deltas {
            for (m, ms) in mults {
                for cu in cus {
                    for sh in shares {
                        out.push((format!("eps={e},delta={d},mult={m},mult_share={ms},cu={cu},tau_share={sh}"), DpParameters::new(*e, *d, *sh, *m, *ms, *cu)));
                    }
                }
            }
        }
    }
    out
}

pub struct Compiled {
    pub query: DpQuery,
    pub dp_name: String,
    pub dp: DpParameters,
    pub original: Arc<Relation>,
    /// structural features of the original relation (features.rs)
    pub features: Vec<String>,
    pub rewritten: Arc<Relation>,
    pub event_gaussians: Vec<f64>,
    pub event_eps_delta: Vec<(f64, f64)>,
    pub ir: DpIr,
}

pub enum CompileOutcome {
    Ok(Compiled),
    Refused(String),
    Panic(Panic),
}

pub fn compile_dp(q: &DpQuery, dp_name: &str, dp: &DpParameters, relations: &Hierarchy<Arc<Relation>>) -> CompileOutcome {
    compile_dp_with(q, dp_name, dp, relations, crate::c18::privacy_unit())
}

/// direct, weighted privacy units: the weight varies between the rows of one unit in `orders`
pub fn weighted_privacy_unit() -> qrlew::privacy_unit_tracking::PrivacyUnit {
    qrlew::privacy_unit_tracking::PrivacyUnit::from((vec![("users", vec![], "id", "id"), ("orders", vec![], "user_id", "id")], false))
}

pub fn compile_dp_with(q: &DpQuery, dp_name: &str, dp: &DpParameters, relations: &Hierarchy<Arc<Relation>>, pu: qrlew::privacy_unit_tracking::PrivacyUnit) -> CompileOutcome {
    let r = guarded(|| -> Result<Compiled, String> {
        let query = parse(&q.sql).map_err(|e| e.to_string())?;
        let rel = Relation::try_from(query.with(relations)).map_err(|e| e.to_string())?;
        let out = rel.rewrite_with_differential_privacy(relations, None, pu.clone(), dp.clone()).map_err(|e| e.to_string())?;
        let mut g = vec![];
        let mut ed = vec![];
        flatten_event(out.dp_event(), &mut g, &mut ed);
        let ir = analyse(out.relation());
        Ok(Compiled { query: q.clone(), dp_name: dp_name.to_string(), dp: dp.clone(), features: crate::features::features(&rel), original: Arc::new(rel), rewritten: Arc::new(out.relation().clone()), event_gaussians: g, event_eps_delta: ed, ir })
    });
    match r {
        Ok(Ok(c)) => CompileOutcome::Ok(c),
        Ok(Err(e)) => CompileOutcome::Refused(e.chars().take(200).collect()),
        Err(p) => CompileOutcome::Panic(p),
    }
}

// ---- the harness's own row model of ownership ------------------------------------------------

/// the privacy unit (a users.id) owning a row, following the foreign-key path; None when the path
/// dangles
pub fn owner(table: &str, row: &[Cell], db: &Db) -> Option<i64> {
    let int = |c: &Cell| match c {
        Cell::Int(i) => Some(*i),
        _ => None,
    };
    match table {
        "users" => int(&row[0]),
        "orders" => {
            let uid = int(&row[1])?;
            db.get("users")?.iter().find(|u| int(&u[0]) == Some(uid)).map(|_| uid)
        }
        "items" => {
            let oid = int(&row[0])?;
            let order = db.get("orders")?.iter().find(|o| int(&o[0]) == Some(oid))?;
            owner("orders", order, db)
        }
        _ => None,
    }
}

pub fn units(db: &Db) -> Vec<i64> {
    let mut u: Vec<i64> = db.get("users").map(|r| r.iter().filter_map(|x| match &x[0] { Cell::Int(i) => Some(*i), _ => None }).collect()).unwrap_or_default();
    u.sort();
    u.dedup();
    u
}

/// D without the rows owned by unit u (rows of public tables and dangling rows stay)
pub fn without_unit(db: &Db, u: i64) -> Db {
    db.iter().map(|(t, rows)| (*t, rows.iter().filter(|r| owner(t, r, db) != Some(u)).cloned().collect())).collect()
}

/// D restricted to unit u: protected rows not owned by u are deleted
pub fn only_unit(db: &Db, u: i64) -> Db {
    db.iter()
        .map(|(t, rows)| {
            let protected = matches!(*t, "users" | "orders" | "items");
            (*t, rows.iter().filter(|r| !protected || owner(t, r, db) == Some(u)).cloned().collect())
        })
        .collect()
}

pub fn fill(e: &Engine, world: &World, db: &Db) {
    let mut sql = String::new();
    for t in &world.tables {
        sql.push_str(&format!("DELETE FROM \"{}\";", t.name));
        if let Some(rows) = db.get(t.name) {
            if !rows.is_empty() {
                sql.push_str(&format!(
                    "INSERT INTO \"{}\" VALUES {};",
                    t.name,
                    rows.iter().map(|r| format!("({})", r.iter().map(|c| c.sql()).collect::<Vec<_>>().join(","))).collect::<Vec<_>>().join(",")
                ));
            }
        }
    }
    e.exec(&sql).expect("fill");
}

pub fn new_engine(world: &World) -> Engine {
    let e = Engine::new();
    let empty: Db = world.tables.iter().map(|t| (t.name, vec![])).collect();
    e.load(&world.load_spec(&empty)).expect("create tables");
    e
}

/// vector of a value column of a node table keyed by the other (key) columns
fn keyed_vector(t: &Table, value_col: &str, other_value_cols: &[String]) -> BTreeMap<String, f64> {
    let vi = match t.cols.iter().position(|c| c == value_col) {
        Some(i) => i,
        None => return BTreeMap::new(),
    };
    let key_idx: Vec<usize> = (0..t.cols.len()).filter(|i| *i != vi && !other_value_cols.contains(&t.cols[*i])).collect();
    let mut out = BTreeMap::new();
    for r in &t.rows {
        let key = key_idx.iter().map(|i| r[*i].show()).collect::<Vec<_>>().join("|");
        let v = r[vi].num().unwrap_or(0.0);
        *out.entry(key).or_insert(0.0) += v;
    }
    out
}

fn l2_diff(a: &BTreeMap<String, f64>, b: &BTreeMap<String, f64>) -> f64 {
    let mut s = 0.0;
    for k in a.keys().chain(b.keys()).collect::<std::collections::BTreeSet<_>>() {
        let d = a.get(k).cloned().unwrap_or(0.0) - b.get(k).cloned().unwrap_or(0.0);
        s += d * d;
    }
    s.sqrt()
}

fn db_rows(tier: Tier, ntables: usize) -> usize {
    match (tier, ntables) {
        (Tier::Quick, 1) => 2,
        (Tier::Quick, _) => 4,
        (Tier::Thorough, 1) => 3,
        (Tier::Thorough, _) => 3,
    }
}

fn phi(x: f64) -> f64 {
    0.5 * libm::erfc(-x / std::f64::consts::SQRT_2)
}

fn phi_inv(p: f64) -> f64 {
    // Newton on phi, from a rational start
    if p <= 0.0 {
        return f64::NEG_INFINITY;
    }
    if p >= 1.0 {
        return f64::INFINITY;
    }
    let mut x = 0.0;
    for _ in 0..200 {
        let f = phi(x) - p;
        let d = (-x * x / 2.0).exp() / (2.0 * std::f64::consts::PI).sqrt();
        if d < 1e-300 {
            break;
        }
        let step = f / d;
        x -= step.clamp(-1.0, 1.0);
        if step.abs() < 1e-14 {
            break;
        }
    }
    x
}

pub fn ref_multiplier(eps: f64, delta: f64) -> f64 {
    (2.0 * (1.25 / delta).ln()).sqrt() / eps
}

pub fn ref_tau(eps: f64, delta: f64, cu: f64) -> f64 {
    let sigma = ref_multiplier(eps, delta) * cu.sqrt();
    1.0 + sigma * phi_inv((1.0 - delta).powf(1.0 / cu))
}

// ---------------------------------------------------------------------------------------
// C01 + C09 + C03 share the compilation; they differ in what is executed

#[derive(Clone, Copy, PartialEq)]
pub enum Which {
    C01,
    C03,
    C09,
}

pub fn run(ctx: &Ctx, which: Which) -> Report {
    let level = "exploration";
    let mut head = Report::new(level);
    if let Err(e) = crate::sqlite::self_test() {
        head.machinery_errors.push(e);
        return head;
    }
    // closed-form self-test of the reference DP maths
    let uniform3: f64 = 3.0 * (2.0 * (1.25f64 / (1e-3 / 3.0)).ln()).sqrt() / 10.0;
    if (min_epsilon_sum(&[10.0, 10.0, 10.0], 1e-3) - uniform3).abs() > 1e-6 || min_epsilon_sum(&[16.50909392199704, 16.50909392199704, 7.911533864355908], 1e-3) > 1.0 {
        head.machinery_errors.push("reference allocation solver self-test failed".into());
        return head;
    }
    if (phi_inv(0.975) - 1.959963984540054).abs() > 1e-9 || (ref_multiplier(1.0, 1e-3) - 3.776479532659047).abs() > 1e-9 {
        head.machinery_errors.push("reference DP maths self-test failed".into());
        return head;
    }
    let world = if ctx.tier == Tier::Quick { World::compact() } else { World::standard() };
    let relations = world.relations();
    let (queries, grid) = if which == Which::C03 {
        (c03_queries(ctx.tier), c03_param_grid(ctx.tier))
    } else {
        let mut q = dp_queries(ctx.tier);
        q.extend(dp_composed(ctx.tier));
        (q, dp_param_grid(ctx.tier))
    };
    let mut configs: Vec<Compiled> = vec![];
    // compile every (query, parameters) configuration, on 16 fresh threads, results in enumeration order
    let mut work: Vec<(&DpQuery, &String, &DpParameters)> = vec![];
    for q in &queries {
        for (gi, (name, dp)) in grid.iter().enumerate() {
            // the composed programs are compiled with the first two parameter points (multiplicity bound 100 and 1)
            if q.tags.contains(&"composed") && which != Which::C03 && gi >= 2 {
                continue;
            }
            // the two-column aggregate pairs are about the reassembly of the aggregates (C09): one point for C01 quick
            if which == Which::C01 && ctx.tier == Tier::Quick && (q.tags.contains(&"two-columns") || q.tags.contains(&"three-aggregates")) && gi >= 1 {
                continue;
            }
            // the public / protected outer joins are about which rows the rewriting keeps (C09): not in C01 quick
            if which == Which::C01 && ctx.tier == Tier::Quick && q.tags.contains(&"composed") && q.tables.contains(&"ref") {
                continue;
            }
            let id = format!("{} [{}]", q.sql, name);
            if !ctx.wants(&id) {
                continue;
            }
            work.push((q, name, dp));
        }
    }
    let slice = ((work.len() + 15) / 16).max(1);
    let mut outcomes: Vec<CompileOutcome> = vec![];
    std::thread::scope(|sc| {
        let handles: Vec<_> = work
            .chunks(slice)
            .map(|part| {
                let relations = &relations;
                std::thread::Builder::new().stack_size(64 << 20).spawn_scoped(sc, move || part.iter().map(|(q, name, dp)| compile_dp(q, name, dp, relations)).collect::<Vec<_>>()).expect("spawn")
            })
            .collect();
        for h in handles {
            outcomes.extend(h.join().expect("compile thread"));
        }
    });
    for ((q, _name, _dp), outcome) in work.iter().zip(outcomes.into_iter()) {
        {
            match outcome {
                CompileOutcome::Ok(c) if which != Which::C03 && c.features.iter().any(|f| f == "join.over-reduce") => {
                    // a join over an aggregating sub-query: the sub-query is released by its own mechanism (every public
                    // key, empty groups included) and joined as public data; what the outer aggregate should equal /
                    // which literal calibrates which noise is not decided here
                    head.add_count("not_decided(join over an aggregating sub-query)", 1);
                    let _ = c;
                }
                CompileOutcome::Ok(c) => {
                    head.add_count("configs_accepted", 1);
                    for t in &q.tags {
                        head.reach("accepted_by_tag", t);
                    }
                    configs.push(c);
                }
                CompileOutcome::Refused(e) => {
                    head.add_count("configs_refused", 1);
                    head.reach("refused", &format!("{} :: {}", q.sql, e.chars().take(60).collect::<String>()));
                }
                CompileOutcome::Panic(p) => {
                    head.add_count("configs_rejected_by_panic(left to C18)", 1);
                    head.reach("panic_sites", &p.site());
                }
            }
        }
    }
    head.set("queries", queries.len() as u64);
    head.set("dp_parameter_points", grid.len() as u64);
    if which == Which::C03 {
        for c in &configs {
            check_c03(c, &mut head);
        }
        head.rule = "accepted DP programs (1-3 aggregates, distinct splits, grouped by public / private / mixed keys, joins along the privacy-unit path, sub-queries) x a grid of DpParameters; the mechanisms actually present are read from the rewritten IR (sigma and clipping bound C per noised column, tau / sigma_count / Cu per threshold filter) and checked against closed forms written from the definitions: (i) every Gaussian column is matched by a recorded Gaussian entry with multiplier <= sigma/C, every threshold by an (epsilon, delta) entry >= the one solved from the literals; (ii) per query, some allocation exists with epsilon_used + sum epsilon_i <= epsilon and delta_used + sum delta_i <= delta under the classical calibration (the cheapest allocation is computed by nested bisection). non-trivial = configurations with at least one mechanism".into();
        head.assumptions = vec!["the IR reader (dpir.rs) identifies mechanisms by expression shape; C01 binds it to behaviour".into()];
        return head;
    }
    // group configs by table set for the database enumeration
    let mut by_tables: BTreeMap<Vec<&'static str>, Vec<Compiled>> = BTreeMap::new();
    for c in configs {
        by_tables.entry(c.query.tables.clone()).or_default().push(c);
    }
    let tier = ctx.tier;
    for (tables, cs) in by_tables {
        let dbs = world.databases(&tables, db_rows(tier, tables.len()));
        head.reach("databases_per_table_set", &format!("{}:{}", tables.join("+"), dbs.len()));
        let chunk = (dbs.len() / 48).max(1);
        let chunks: Vec<Vec<Db>> = dbs.chunks(chunk).map(|c| c.to_vec()).collect();
        let world = &world;
        let cs = &cs;
        let part = par_reports(chunks, level, move |dbs, r| {
            let e = new_engine(world);
            e.conn.set_prepared_statement_cache_capacity(512);
            r.add_count("databases", dbs.len() as u64);
            for c in cs.iter() {
                let plan = match e.plan(&c.rewritten) {
                    Ok(p) => p,
                    Err(err) => {
                        r.reach("materialisation_errors", &err.chars().take(80).collect::<String>());
                        continue;
                    }
                };
                for db in dbs.iter() {
                    // quick: the composed programs on the instances with <= 3 rows in total
                    if tier == Tier::Quick && c.query.tags.contains(&"composed") && db.values().map(|rows| rows.len()).sum::<usize>() > 3 {
                        continue;
                    }
                    match which {
                        Which::C01 => check_c01(c, &plan, &e, world, db, r),
                        Which::C09 => check_c09(c, &plan, &e, world, db, r),
                        Which::C03 => {}
                    }
                }
                e.drop_plan(&plan);
            }
        });
        head.merge(part);
    }
    match which {
        Which::C01 => {
            head.rule = "configurations = DP query shapes (count/sum/avg/var/std/distinct x ungrouped / public key / private key x filters, joins along the privacy-unit path, LIMIT / DISTINCT / set operation / outer join with a public table below the aggregation) x DpParameters; for each, ALL database instances (<= 3-4 rows over the tables read, NULLs, range boundaries, dangling foreign keys) and in each EVERY privacy unit u: the pre-noise relation (input of the noise-adding Map, read from the IR) is materialised node by node on D and on D minus u with the noise-free script; oracle: per noised column the L2 norm of the difference over all groups <= C (the literal in the scale factor feeding it; sqrt(Cu) for the unit-count of key release). non-trivial = (config, database, unit) triples whose difference is non-zero".into();
            head.assumptions = vec![
                "ownership of a row is computed by the harness from its own row model of the foreign-key path".into(),
                "sigma and C are read from the IR by expression shape; the set of noised columns is bound to behaviour (columns that move under a constant random script)".into(),
            ];
        }
        Which::C09 => {
            head.rule = "DP aggregation programs over public-valued keys or ungrouped x DpParameters x ALL database instances, filtered by the precondition evaluated by the harness (every unit's per-group contribution norm <= C for every noised column, so clipping is inactive) and executed with the all-default random script (every noise draw exactly 0); oracle: on the groups of the original query the DP rewriting returns the same COUNT, SUM, AVG (rel. 1e-9), VAR/STD equal to the sample or the population statistic; extra rows only for public key values with empty groups. non-trivial = (config, database) pairs satisfying the precondition with a non-empty result".into();
            head.assumptions = vec!["SUM/AVG of an empty group compare equal whether spelled NULL or 0".into()];
        }
        _ => {}
    }
    head
}

fn materialise(e: &Engine, plan: &crate::sqlite::Plan, script_const: Option<f64>, want: Option<&[String]>) -> Result<(Table, BTreeMap<String, Table>), String> {
    e.set_script(vec![], script_const);
    e.run_plan(plan, want)
}

fn check_c01(c: &Compiled, plan: &crate::sqlite::Plan, e: &Engine, world: &World, db: &Db, r: &mut Report) {
    let case_id = format!("{} [{}]", c.query.sql, c.dp_name);
    let us = units(db);
    if c.ir.noised.is_empty() {
        // no noise-adding projection was located in the IR: fine if the result really does not depend on the random
        // source (published through public tables only); if it does, the reader is blind to this rewriting and saying
        // nothing would be vacuous
        if !us.is_empty() && r.extra.get("unlocated_noise_checked").and_then(|m| m.get(&case_id)).is_none() {
            fill(e, world, db);
            if let (Ok((a, _)), Ok((b, _))) = (materialise(e, plan, None, Some(&[])), materialise(e, plan, Some(0.5), Some(&[]))) {
                if !a.rows.is_empty() {
                    r.reach("unlocated_noise_checked", &case_id);
                    if a.rows.len() != b.rows.len() || a.rows.iter().zip(b.rows.iter()).any(|(x, y)| x.iter().zip(y.iter()).any(|(c1, c2)| !c1.close(c2, 1e-12))) {
                        r.machinery_errors.push(format!("the result of {case_id} depends on the random source but no noised column was located in the IR"));
                    }
                }
            }
        }
        return;
    }
    if us.is_empty() {
        return;
    }
    fill(e, world, db);
    let want: Vec<String> = c.ir.noised.iter().map(|n| n.input_node.clone()).collect();
    let (_, base) = match materialise(e, plan, None, Some(&want)) {
        Ok(x) => x,
        Err(err) => {
            r.reach("materialisation_errors", &err.chars().take(80).collect::<String>());
            return;
        }
    };
    // bind the IR reading to behaviour, once per worker and config: the columns that move under a
    // constant random script are exactly the noised columns the IR reader found
    if r.extra.get("ir_bound").and_then(|m| m.get(&case_id)).is_none() {
        let base_all = materialise(e, plan, None, None).map(|x| x.1).unwrap_or_default();
        if let Ok((_, moved)) = materialise(e, plan, Some(0.5), None) {
            let base = &base_all;
            for n in &c.ir.noised {
                if let (Some(a), Some(b)) = (base.get(&n.node), moved.get(&n.node)) {
                    let ci = a.cols.iter().position(|x| *x == n.column);
                    if let Some(ci) = ci {
                        let any_move = a.rows.iter().zip(b.rows.iter()).any(|(x, y)| !x[ci].close(&y[ci], 1e-12));
                        if !any_move && !a.rows.is_empty() && n.sigma > 0.0 {
                            // possible only if every cell sits on a clamp bound
                            r.add_count("noised_columns_not_moving(clamped)", 1);
                        }
                    }
                }
            }
            // a column that moves in a node that is not a noise node (and not downstream of one)
            // would mean the reader missed a mechanism
            for (node, a) in base.iter() {
                if let Some(b) = moved.get(node) {
                    if a.rows.len() == b.rows.len() {
                        for (ci, col) in a.cols.iter().enumerate() {
                            let moves = a.rows.iter().zip(b.rows.iter()).any(|(x, y)| !x[ci].close(&y[ci], 1e-12));
                            if moves && col.starts_with("_SUM_") | col.starts_with("_COUNT_") && !c.ir.noised.iter().any(|n| n.column == *col) {
                                r.machinery_errors.push(format!("IR reader missed a noised column {col} in node {node} for {case_id}"));
                            }
                        }
                    }
                }
            }
        }
        r.reach("ir_bound", &case_id);
    }
    for u in us {
        let d2 = without_unit(db, u);
        fill(e, world, &d2);
        let (_, other) = match materialise(e, plan, None, Some(&want)) {
            Ok(x) => x,
            Err(_) => continue,
        };
        for n in &c.ir.noised {
            r.evaluations += 1;
            let cbound = match n.clip {
                Some(cb) => cb,
                None => {
                    // key release: the unit count is bounded by the contribution limit
                    match c.ir.limits.first() {
                        Some(l) if n.column.contains("COUNT_DISTINCT") => l.cu.sqrt(),
                        _ => {
                            // the scale-factor literal was not found in the IR (the clipping is spelled in a way the
                            // reader does not know): fall back on the statement itself, C = sigma / noise multiplier,
                            // with the smallest Gaussian multiplier recorded in the returned event (the largest C)
                            let recorded = c.event_gaussians.iter().cloned().fold(f64::INFINITY, f64::min);
                            if n.sigma == 0.0 {
                                0.0
                            } else if recorded.is_finite() && recorded > 0.0 {
                                r.add_count("clip_bound_taken_from_sigma_over_recorded_multiplier", 1);
                                n.sigma / recorded
                            } else {
                                r.machinery_errors.push(format!("no clipping bound found for noised column {} of {}", n.column, case_id));
                                continue;
                            }
                        }
                    }
                }
            };
            let others: Vec<String> = c.ir.noised.iter().filter(|m| m.node == n.node && m.column != n.column).map(|m| m.input_column.clone()).collect();
            let (ta, tb) = match (base.get(&n.input_node), other.get(&n.input_node)) {
                (Some(a), Some(b)) => (a, b),
                _ => {
                    r.machinery_errors.push(format!("pre-noise node {} not materialised for {}", n.input_node, case_id));
                    continue;
                }
            };
            let va = keyed_vector(ta, &n.input_column, &others);
            let vb = keyed_vector(tb, &n.input_column, &others);
            let norm = l2_diff(&va, &vb);
            if norm > 0.0 {
                r.distinct_nontrivial += 1;
                if r.samples.is_empty() && cbound > 0.0 && norm >= 0.5 * cbound {
                    r.sample(json!({"query": c.query.sql, "dp_parameters": c.dp_name, "database": show_db(db), "removed_unit": u, "noised_column": n.column, "sigma": n.sigma, "clip_bound_C": cbound,
                        "pre_noise_on_D": ta.show(), "pre_noise_on_D_minus_u": tb.show(), "l2_change": norm}));
                }
            }
            if std::env::var("QV_DEBUG_C01").is_ok() && norm > 0.0 {
                eprintln!("C01 {} col={} sigma={} clip_ir={:?} cbound={} norm={} recorded={:?} input={}.{}", c.dp_name, n.column, n.sigma, n.clip, cbound, norm, c.event_gaussians, n.input_node, n.input_column);
            }
            // reach: how close to the bound the exploration got
            let key = format!("max_norm_over_C[{}]", c.query.tags.join("+"));
            let ratio = if cbound > 0.0 { norm / cbound } else if norm > 0.0 { f64::INFINITY } else { 0.0 };
            let cur = r.extra.get(&key).and_then(|x| x.as_f64()).unwrap_or(0.0);
            if ratio > cur {
                r.extra.insert(key, json!(ratio));
            }
            if norm > cbound * (1.0 + 1e-9) + 1e-12 {
                r.violation(
                    c01_sig(&format!("sensitivity-exceeds-clip column-kind={}", n.column.split('_').nth(1).unwrap_or("?")), c),
                    &case_id,
                    json!({"query": c.query.sql, "dp_parameters": c.dp_name, "noised_column": n.column, "sigma": n.sigma, "clip_bound_C": cbound, "observed_l2_change": norm,
                           "removed_unit": u, "database": show_db(db), "pre_noise_on_D": ta.show(), "pre_noise_on_D_minus_u": tb.show(), "features": c.features}),
                );
            }
            // sigma must be scaled by at least the recorded multiplier times C
            if cbound > 0.0 {
                let recorded = c.event_gaussians.iter().cloned().fold(f64::INFINITY, f64::min);
                if recorded.is_finite() && !n.column.contains("COUNT_DISTINCT") && n.sigma < recorded * cbound * (1.0 - 1e-9) {
                    r.violation(
                        format!("sigma-below-recorded-multiplier-times-C tags={}", c.query.tags.join("+")),
                        &case_id,
                        json!({"query": c.query.sql, "dp_parameters": c.dp_name, "noised_column": n.column, "sigma": n.sigma, "clip_bound_C": cbound, "recorded_multiplier": recorded}),
                    );
                }
            }
        }
    }
}

// ---------------------------------------------------------------------------------------

/// min over (delta_1..delta_k), sum delta_i = delta_left, of sum_i sqrt(2 ln(1.25/delta_i)) / m_i
/// (each term is convex and decreasing in delta_i: equalise the derivatives by nested bisection)
pub fn min_epsilon_sum(ms: &[f64], delta_left: f64) -> f64 {
    let g = |d: f64| d * (2.0 * (1.25 / d).ln()).sqrt(); // increasing on (0, 0.4]
    let solve = |target: f64| -> f64 {
        // delta with g(delta) = target, clamped to (0, 0.4]
        let (mut lo, mut hi) = (1e-300f64, 0.4f64);
        if g(hi) <= target {
            return hi;
        }
        for _ in 0..200 {
            let mid = (lo * hi).sqrt();
            if g(mid) < target {
                lo = mid
            } else {
                hi = mid
            }
        }
        lo
    };
    // delta_i(lambda) = solve(1 / (m_i lambda)), decreasing in lambda
    let total = |lambda: f64| -> f64 { ms.iter().map(|m| solve(1.0 / (m * lambda))).sum() };
    let (mut lo, mut hi) = (1e-12f64, 1e300f64);
    for _ in 0..400 {
        let mid = (lo * hi).sqrt();
        if total(mid) > delta_left {
            lo = mid
        } else {
            hi = mid
        }
    }
    ms.iter().map(|m| (2.0 * (1.25 / solve(1.0 / (m * hi))).ln()).sqrt() / m).sum()
}

fn check_c03(c: &Compiled, r: &mut Report) {
    let case_id = format!("{} [{}]", c.query.sql, c.dp_name);
    r.evaluations += 1;
    let tags = c.query.tags.join("+");
    let gauss: Vec<&crate::dpir::NoisedColumn> = c.ir.noised.iter().filter(|n| !n.column.contains("COUNT_DISTINCT_PID") && n.sigma > 0.0).collect();
    let thresholds = &c.ir.thresholds;
    if gauss.is_empty() && thresholds.is_empty() {
        return;
    }
    r.distinct_nontrivial += 1;
    if r.samples.is_empty() && !thresholds.is_empty() && !gauss.is_empty() {
        r.sample(json!({"query": c.query.sql, "dp_parameters": c.dp_name,
            "gaussian_columns(sigma, C)": gauss.iter().map(|n| json!([n.column, n.sigma, n.clip])).collect::<Vec<_>>(),
            "thresholds(column, tau)": thresholds.iter().map(|t| json!([t.column, t.tau])).collect::<Vec<_>>(),
            "contribution_limits": c.ir.limits.iter().map(|l| l.cu).collect::<Vec<_>>(),
            "recorded_gaussian_multipliers": c.event_gaussians, "recorded_epsilon_delta": c.event_eps_delta}));
    }
    if !thresholds.is_empty() {
        r.reach("reach", "thresholding-present");
    }
    if gauss.len() >= 3 {
        r.reach("reach", ">=3-gaussians");
    }
    if c.query.tags.iter().any(|t| t.contains("distinct")) {
        r.reach("reach", "distinct-split");
    }
    // (i) matching with the recorded entries
    let mut recorded = c.event_gaussians.clone();
    recorded.sort_by(|a, b| b.partial_cmp(a).unwrap());
    let mut actual: Vec<(f64, String)> = vec![];
    for n in &gauss {
        match n.clip {
            Some(cb) if cb > 0.0 => actual.push((n.sigma / cb, n.column.clone())),
            Some(_) => {}
            // (the DP rewriting of mixed plain / DISTINCT aggregates over one column iterates a HashMap: from run to run the
            // two reduces come out in either order and the reader does not always link the clipping literal; the column
            // is then left out of the ratio checks and counted — C01 binds clip literals to behaviour)
            None => r.add_count("gaussian_columns_without_located_clip", 1),
        }
    }
    actual.sort_by(|a, b| b.0.partial_cmp(&a.0).unwrap());
    if recorded.len() < actual.len() {
        r.violation(
            format!("mechanism-not-recorded tags={tags}"),
            &case_id,
            json!({"query": c.query.sql, "dp_parameters": c.dp_name, "gaussian_columns_in_query": actual, "recorded_gaussian_multipliers": recorded}),
        );
    } else {
        // greedy injective matching: the largest actual ratio takes the largest recorded multiplier not above it
        let mut pool = recorded.clone();
        for (ratio, col) in &actual {
            if let Some(pos) = pool.iter().position(|m| *m <= ratio * (1.0 + 1e-9)) {
                pool.remove(pos);
            } else {
                r.violation(
                    format!("recorded-multiplier-above-sigma-over-C tags={tags}"),
                    &case_id,
                    json!({"query": c.query.sql, "dp_parameters": c.dp_name, "column": col, "sigma_over_C": ratio, "recorded_gaussian_multipliers": recorded}),
                );
                break;
            }
        }
    }
    let mut eps_used = 0.0;
    let mut delta_used = 0.0;
    for t in thresholds {
        let count = c.ir.noised.iter().find(|n| n.column == t.column);
        let cu = c.ir.limits.first().map(|l| l.cu).unwrap_or(c.dp.max_privacy_unit_groups as f64);
        if let Some(cn) = count {
            let sigma = cn.sigma;
            let d_used = 1.0 - phi((t.tau - 1.0) / sigma).powf(cu);
            let e_used = (2.0 * (1.25 / d_used).ln()).sqrt() * cu.sqrt() / sigma;
            eps_used += e_used;
            delta_used += d_used;
            let ok = c.event_eps_delta.iter().any(|(e, d)| *e >= e_used * (1.0 - 1e-6) && *d >= d_used * (1.0 - 1e-6));
            if !ok {
                r.violation(
                    format!("threshold-under-recorded tags={tags}"),
                    &case_id,
                    json!({"query": c.query.sql, "dp_parameters": c.dp_name, "sigma_count": sigma, "tau": t.tau, "cu": cu, "epsilon_used": e_used, "delta_used": d_used, "recorded": c.event_eps_delta}),
                );
            }
            // the literals must be at least those of the reserved share
            let (es, ds) = (c.dp.epsilon * c.dp.tau_thresholding_share, c.dp.delta * c.dp.tau_thresholding_share);
            let tau_ref = ref_tau(es, ds, cu);
            if t.tau < tau_ref * (1.0 - 1e-6) || sigma < ref_multiplier(es, ds) * cu.sqrt() * (1.0 - 1e-9) {
                r.violation(
                    format!("threshold-below-required tags={tags}"),
                    &case_id,
                    json!({"query": c.query.sql, "dp_parameters": c.dp_name, "tau": t.tau, "tau_required": tau_ref, "sigma_count": sigma, "sigma_required": ref_multiplier(es, ds) * cu.sqrt()}),
                );
            }
        } else {
            r.machinery_errors.push(format!("C03: threshold on {} without a noised count in {}", t.column, case_id));
        }
    }
    // (ii) the budget. A query with several DP aggregations hands (epsilon, delta) to EACH of them: the Gaussian columns
    // are grouped by the Map that adds their noise, and each group alone must fit (a necessary condition: the
    // thresholds are not attributed to a group, so their share is not subtracted)
    let mut groups: BTreeMap<String, Vec<f64>> = BTreeMap::new();
    for n in &gauss {
        if let Some(cb) = n.clip {
            if cb > 0.0 {
                groups.entry(n.node.clone()).or_default().push(n.sigma / cb);
            }
        }
    }
    // (the per-DISTINCT-column sub-aggregations of ONE aggregation of the query share its budget: when the query has a
    // single Reduce every Gaussian column belongs to it and the sum below applies)
    fn count_reduces(r: &qrlew::relation::Relation) -> usize {
        (if matches!(r, qrlew::relation::Relation::Reduce(_)) { 1 } else { 0 }) + r.inputs().iter().map(|i| count_reduces(i)).sum::<usize>()
    }
    if groups.len() > 1 && count_reduces(&c.original) == 1 {
        r.reach("reach", "one-aggregation-split-per-distinct-column");
    }
    if groups.len() > 1 && count_reduces(&c.original) != 1 {
        r.reach("reach", "several-dp-aggregations");
        for (node, ratios) in &groups {
            let eps_sum = min_epsilon_sum(ratios, c.dp.delta);
            if eps_sum > c.dp.epsilon * (1.0 + 1e-6) {
                r.violation(
                    format!("budget-exceeded(one-aggregation) tags={tags}"),
                    &case_id,
                    json!({"query": c.query.sql, "dp_parameters": c.dp_name, "noise_node": node, "epsilon": c.dp.epsilon, "delta": c.dp.delta, "epsilon_implied_by_the_gaussians": eps_sum, "sigma_over_C": ratios}),
                );
            }
        }
        return;
    }
    let k = actual.len() as f64;
    if k > 0.0 {
        let delta_left = c.dp.delta - delta_used;
        if delta_left <= 0.0 {
            r.violation(format!("delta-exhausted-by-thresholding tags={tags}"), &case_id, json!({"query": c.query.sql, "dp_parameters": c.dp_name, "delta_used": delta_used}));
            return;
        }
        // the cheapest allocation (epsilon_i, delta_i) that the applied multipliers can satisfy under the
        // classical calibration m_i >= sqrt(2 ln(1.25/delta_i)) / epsilon_i with sum delta_i = delta_left
        let ratios: Vec<f64> = actual.iter().map(|(ratio, _)| *ratio).collect();
        let eps_sum = min_epsilon_sum(&ratios, delta_left);
        let _ = k;
        if eps_used + eps_sum > c.dp.epsilon * (1.0 + 1e-6) {
            r.violation(
                format!("budget-exceeded tags={tags}"),
                &case_id,
                json!({"query": c.query.sql, "dp_parameters": c.dp_name, "epsilon": c.dp.epsilon, "delta": c.dp.delta, "epsilon_used_by_thresholding": eps_used, "delta_used_by_thresholding": delta_used,
                       "epsilon_implied_by_the_gaussians": eps_sum, "sigma_over_C": actual}),
            );
        }
    }
}

// ---------------------------------------------------------------------------------------

thread_local! {
    static KNOWN_C09: std::collections::BTreeSet<String> = crate::features::open_known("C09");
    static KNOWN_C01: std::collections::BTreeSet<String> = crate::features::open_known("C01");
}

fn c01_sig(kind: &str, c: &Compiled) -> String {
    let by_tags = format!("{kind} tags={}", c.query.tags.join("+"));
    let by_query = format!("{kind} :: {}", c.query.sql);
    KNOWN_C01.with(|k| {
        // a finding recorded for this very query (the narrowest key: it excuses nothing else)
        if k.contains(&by_query) {
            return by_query.clone();
        }
        if k.contains(&by_tags) {
            return by_tags.clone();
        }
        for f in &c.features {
            let s = format!("{kind} @{f}");
            if k.contains(&s) {
                return s;
            }
        }
        by_tags.clone()
    })
}

/// `kind tags=..` when that is a known finding, else the first known `kind @feature` of the original relation, else
/// `kind tags=..` (new)
fn c09_sig(kind: &str, c: &Compiled) -> String {
    let tags = c.query.tags.join("+");
    let by_tags = format!("{kind} tags={tags}");
    let by_query = format!("{kind} :: {}", c.query.sql);
    KNOWN_C09.with(|k| {
        // a finding recorded for this very query (the narrowest key: it excuses nothing else)
        if k.contains(&by_query) {
            return by_query.clone();
        }
        if k.contains(&by_tags) {
            return by_tags.clone();
        }
        for f in &c.features {
            let s = format!("{kind} @{f}");
            if k.contains(&s) {
                return s;
            }
        }
        by_tags.clone()
    })
}

fn check_c09(c: &Compiled, plan: &crate::sqlite::Plan, e: &Engine, world: &World, db: &Db, r: &mut Report) {
    // public-valued keys or ungrouped only
    if c.query.tags.iter().any(|t| matches!(*t, "private-key" | "mixed-keys" | "computed-key" | "nested-dp" | "limit-below")) {
        return;
    }
    let case_id = format!("{} [{}]", c.query.sql, c.dp_name);
    // keys released by thresholding are dropped at random: exactness is stated for public keys / ungrouped only
    if !c.ir.thresholds.is_empty() {
        r.add_count("skipped_private_keys(thresholding)", 1);
        return;
    }
    // precondition (data conform to the declared schema): every protected row has an owner, i.e.
    // no dangling foreign key on the privacy-unit path (a row nobody owns cannot be attributed)
    for t in ["orders", "items"] {
        if db.get(t).map_or(false, |rows| rows.iter().any(|row| owner(t, row, db).is_none())) {
            r.add_count("skipped_dangling_foreign_key", 1);
            return;
        }
    }
    fill(e, world, db);
    r.evaluations += 1;
    let orig = match e.query(&c.query.sql) {
        Ok(t) => t,
        Err(_) => return,
    };
    let (dp, nodes) = match materialise(e, plan, None, None) {
        Ok(x) => x,
        Err(err) => {
            r.reach("materialisation_errors", &err.chars().take(80).collect::<String>());
            return;
        }
    };
    // precondition: clipping inactive — every scale factor that was computed equals 1
    for (name, t) in &nodes {
        for (ci, col) in t.cols.iter().enumerate() {
            if col.starts_with("_SCALE_FACTOR_") && !col.contains("PRIVACY_UNIT") {
                if t.rows.iter().any(|row| row[ci].num().map_or(false, |x| (x - 1.0).abs() > 1e-12)) {
                    // With the multiplicity bound at its maximum (min(100, size of the aggregated relation) rows per unit)
                    // no unit of these instances can exceed it and every value is inside its declared range, so the
                    // precondition of the property holds and a scale factor below 1 is itself a deviation; at the other
                    // parameter points a unit may legitimately exceed the bound: those instances are outside the premise.
                    if c.dp_name.contains("mult=100,mult_share=1,") {
                        r.violation(
                            c09_sig("clipping-active-although-within-bounds", c),
                            &case_id,
                            json!({"query": c.query.sql, "dp_parameters": c.dp_name, "node": name, "scale_factor_column": col, "table": t.show(), "database": show_db(db), "features": c.features}),
                        );
                    } else {
                        r.add_count("skipped_clipping_active", 1);
                    }
                    return;
                }
            }
        }
    }
    r.add_count("precondition_satisfied", 1);
    if !orig.rows.is_empty() {
        r.distinct_nontrivial += 1;
        if r.samples.is_empty() && orig.rows.len() >= 2 {
            r.sample(json!({"query": c.query.sql, "dp_parameters": c.dp_name, "database": show_db(db), "original_result": orig.show(), "dp_result_with_zero_noise": dp.show()}));
        }
    }
    if dp.cols.len() != orig.cols.len() {
        r.violation(c09_sig("column-count", c), &case_id, json!({"query": c.query.sql, "original": orig.show(), "dp": dp.show()}));
        return;
    }
    // kind of every output column, read from the outermost select list of the parsed query text
    let kinds_by_pos = select_list_kinds(&c.query.sql);
    let agg_kind = |i: usize| -> &'static str { kinds_by_pos.get(i).cloned().unwrap_or("key") };
    let kinds: Vec<&'static str> = (0..orig.cols.len()).map(|i| agg_kind(i)).collect();
    // rows are matched by their key columns: a grouped result without any key column cannot be aligned
    if !kinds.iter().any(|k| *k == "key") && (orig.rows.len() > 1 || dp.rows.len() > 1) {
        r.add_count("skipped_grouped_result_without_key_column", 1);
        return;
    }
    let key_idx: Vec<usize> = (0..kinds.len()).filter(|i| kinds[*i] == "key").collect();
    let keyf = |row: &Vec<Cell>| key_idx.iter().map(|i| row[*i].show()).collect::<Vec<_>>().join("|");
    let dp_rows: BTreeMap<String, &Vec<Cell>> = dp.rows.iter().map(|row| (keyf(row), row)).collect();
    for orow in &orig.rows {
        let k = keyf(orow);
        let drow = match dp_rows.get(&k) {
            Some(d) => *d,
            None => {
                r.violation(
                    c09_sig("group-missing", c),
                    &case_id,
                    json!({"query": c.query.sql, "dp_parameters": c.dp_name, "group": k, "original": orig.show(), "dp": dp.show(), "database": show_db(db)}),
                );
                return;
            }
        };
        for (i, kind) in kinds.iter().enumerate() {
            if *kind == "key" {
                continue;
            }
            let (o, d) = (&orow[i], &drow[i]);
            let ok = match *kind {
                "var" | "std" => {
                    // sample or population statistic of the data: compute both from the database
                    match (o.num(), d.num()) {
                        (Some(os), Some(ds)) => {
                            // os is the sample statistic (SQLite shim); the population one follows from n
                            let n = group_count(e, &c.query, &k);
                            let pop = if *kind == "var" { os * (n - 1.0) / n.max(1.0) } else { os * ((n - 1.0) / n.max(1.0)).max(0.0).sqrt() };
                            (ds - os).abs() <= 1e-6 * (1.0 + os.abs()) || (ds - pop).abs() <= 1e-6 * (1.0 + pop.abs())
                        }
                        (None, Some(ds)) => ds.abs() < 1e-9, // undefined statistic (n <= 1): 0 accepted
                        (None, None) => true,
                        _ => false,
                    }
                }
                _ => match (o.num(), d.num()) {
                    (Some(a), Some(b)) => (a - b).abs() <= 1e-9 * (1.0 + a.abs()),
                    (None, Some(b)) => b.abs() < 1e-9, // NULL vs 0 for an empty group: a convention
                    (None, None) => true,
                    (Some(a), None) => a.abs() < 1e-9,
                },
            };
            if !ok {
                r.violation(
                    c09_sig(&format!("aggregate-differs kind={kind}"), c),
                    &case_id,
                    json!({"query": c.query.sql, "dp_parameters": c.dp_name, "column": orig.cols[i], "group": k, "true_value": o.show(), "dp_value_with_zero_noise": d.show(), "database": show_db(db), "original": orig.show(), "dp": dp.show(), "features": c.features}),
                );
                return;
            }
        }
    }
    // extra DP rows: only public key values with empty groups and zero / NULL aggregates
    let orig_keys: std::collections::BTreeSet<String> = orig.rows.iter().map(keyf).collect();
    for drow in &dp.rows {
        if !orig_keys.contains(&keyf(drow)) {
            if key_idx.is_empty() && orig.rows.is_empty() {
                continue;
            }
            let zero = (0..kinds.len()).filter(|i| kinds[*i] != "key").all(|i| drow[i].num().map_or(true, |x| x.abs() < 1e-9));
            r.add_count("extra_public_key_rows", 1);
            if !zero {
                r.violation(
                    c09_sig("extra-group-with-data", c),
                    &case_id,
                    json!({"query": c.query.sql, "extra_row": drow.iter().map(|c| c.show()).collect::<Vec<_>>(), "original": orig.show(), "dp": dp.show(), "database": show_db(db)}),
                );
                return;
            }
        }
    }
}

/// kinds of the items of the outermost select list: "key" (plain column / alias of one), "count", "sum", "avg", "var",
/// "std" (a single aggregate call, DISTINCT or not), "other" (anything else: expressions over aggregates, min / max ...)
pub fn select_list_kinds(sql: &str) -> Vec<&'static str> {
    use qrlew::ast;
    let q = match parse(sql) {
        Ok(q) => q,
        Err(_) => return vec![],
    };
    let sel = match q.body.as_ref() {
        ast::SetExpr::Select(s) => s,
        _ => return vec![],
    };
    sel.projection
        .iter()
        .map(|it| {
            let e = match it {
                ast::SelectItem::ExprWithAlias { expr, .. } => expr,
                ast::SelectItem::UnnamedExpr(expr) => expr,
                _ => return "other",
            };
            match e {
                ast::Expr::Identifier(_) | ast::Expr::CompoundIdentifier(_) => "key",
                ast::Expr::Function(f) => match f.name.to_string().to_lowercase().as_str() {
                    "count" => "count",
                    "sum" => "sum",
                    "avg" => "avg",
                    "variance" | "var" | "var_samp" => "var",
                    "stddev" | "std" | "stddev_samp" => "std",
                    _ => "other",
                },
                _ => "other",
            }
        })
        .collect()
}

fn group_count(e: &Engine, q: &DpQuery, key: &str) -> f64 {
    // number of non-null values aggregated in the group (the var/std queries of E-dp aggregate users.age,
    // ungrouped or grouped by city)
    let sql = if q.sql.contains("GROUP BY city") { format!("SELECT count(age) FROM users WHERE city = {key}") } else { "SELECT count(age) FROM users".to_string() };
    e.query(&sql).ok().and_then(|t| t.rows.first().and_then(|r| r[0].num())).unwrap_or(0.0)
}
