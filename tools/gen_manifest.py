#!/usr/bin/env python3
"""Regenerates /verif/MANIFEST.json from the table below (run by hand after adding a check)."""
import json
CHECKS = {
 "C06": dict(level="exploration", design="2/C06",
   technique="bounded exhaustive enumeration: every function/aggregate variant x argument boxes on a bound grid x every grid point in the box, on the real code",
   text="Exhaustive exploration of the real Function::super_image / Function::value (and Expr::super_image / Expr::value for depth-2 trees) over all function and aggregate variants, all argument boxes built from a bound grid (unions of intervals, optional, int/float mixes, i64/f64 extremes) and every grid point inside each box; the oracle is an independent membership function. Sound for the grid; says nothing outside it.",
   note="Trusted: the reference membership (refm.rs, 150 lines), the grids. A panic/Err of value() is 'does not evaluate'. Float membership is up to 1e-9 relative tolerance."),
 "C11": dict(level="model_checking", design="2/C11",
   technique="explicit-state BFS (stateright) over interval-set operation histories on the real Intervals<B> with every transition compared to an independent interval-list model; exhaustive type-pair x value enumeration for the lattice laws",
   text="(a) stateright breadth-first search over all histories of union_interval / intersection_interval / union / intersection / to_simple_superset / into_interval on the real Intervals<B> (B = i64, f64, String, bool), from empty, full and 125/126/127-interval seeds so that one or two steps cross the real capacity of 128; every transition is executed on the implementation and its result must be sorted, disjoint, within capacity and contain the exact result computed by an independent interval-list reference. Thorough runs to the fixpoint (all reachable states). (b) All ordered pairs of an enumerated universe of data types (all 21 variants, nesting depth <= 2) x a value universe: subset, union, intersection and own-type laws.",
   note="Trusted: the reference interval list (40 lines) and the reference membership functions (refm.rs). Cross-variant membership is taken modulo the library's own value conversion. Quick bounds the history depth to 5."),
 "C10": dict(level="exploration", design="2/C10",
   technique="bounded exhaustive enumeration: predicates up to depth 2/3 over an atom alphabet x struct types from the grids x every row of grid points; all join kinds x ON predicates x every row pair, on the real DataType::filter / Join builder",
   text="Every predicate of the alphabet (comparisons in both operand orders, column-vs-column, IN lists, an unsupported arithmetic sub-term, NOT, all AND/OR pairs; thorough adds depth 3) is applied with the real DataType::filter to every struct type of the grid (intervals, unions, value sets, optional, int/float, text) and, for every row of grid points on which the predicate is true (library evaluator, cross-checked by an independent three-valued evaluator), the row must belong to the narrowed type. The same for the field types of Joins built with the real builder in all five kinds, including the NULL-padded rows of the preserved side.",
   note="Trusted: reference membership, the independent evaluator (used only to refuse premises the library cannot evaluate). Values outside the grids are not explored."),
 "C12": dict(level="exploration", design="2/C12",
   technique="bounded exhaustive enumeration of ordered type pairs x all pairs of values of the source type, on the real into_data_type / as_data_type",
   text="All ordered pairs (A,B) of an enumerated universe of data types (21 variants, depth <= 2, integers around 2^53 and at the i64 extremes, numeric value sets rendered to text) x all values of A from a value universe and all pairs of them: a convertible type converts every value into the converted type, distinct values stay distinct, same-shape reverse conversions return the original, lossy conversions (non-integral float to integer, out-of-range integer to boolean) are refused.",
   note="Trusted: reference membership. Wrapping conversions into `any`-typed containers are excluded from the round-trip clause (no inverse exists)."),
}
NOT_YET = {}
def main():
    props = [json.loads(l) for l in open('/verif/properties.jsonl')]
    checks = []
    na = []
    for p in props:
        pid = p['id']
        if pid in CHECKS:
            c = CHECKS[pid]
            checks.append({
                "property_id": pid,
                "quick_cmd": f"./check {pid} quick",
                "thorough_cmd": f"./check {pid} thorough",
                "evidence_file": f"/verif/evidence/{pid}.json",
                "replay_cmd_template": f"./check {pid} quick --replay {{path}}",
                "engine": "qv",
                "level_claimed": {"category": c['level'], "text": c['text'], "design_ref": c['design']},
                "level_note": c['note'],
                "technique": c['technique'],
            })
        else:
            na.append({"property_id": pid, "reason": NOT_YET.get(pid, "check not built yet in this session (planned: see DESIGN.md section 2); nothing is claimed for it")})
    m = {
        "version": 1,
        "setup_cmd": "cd /verif/harness && CARGO_NET_OFFLINE=true cargo build --offline",
        "hooks": {
            "guard": "cargo feature qrlew_verif",
            "enable": "the harness depends on qrlew by path with features [\"sqlite\", \"qrlew_verif\"] (harness/Cargo.toml); cargo build --features qrlew_verif in /repo",
            "baseline_off_cmd": "/verif/baseline_off.sh",
            "source_commits": ["80602cb"],
            "add_only": True,
        },
        "engines": [{"name": "qv", "path": "/verif/harness", "serves_properties": sorted(CHECKS), "kind_free_text": "Rust binary linking the real qrlew crate from /repo's working tree; deterministic exhaustive enumerators, explicit-state search (stateright), in-process SQLite as independent SQL semantics"}],
        "checks": checks,
        "not_applicable": na,
        "notes": "All checks: ./check <ID> <quick|thorough> [--replay file]. exit 0 held / 1 VIOLATION / 2 machinery failure. Known genuine defects: /verif/known_findings.json.",
    }
    json.dump(m, open('/verif/MANIFEST.json', 'w'), indent=1)
    print("checks:", [c['property_id'] for c in checks], "not_applicable:", len(na))
main()
