#!/usr/bin/env python3
"""Regenerates /verif/MANIFEST.json from the table below (run by hand after adding a check)."""
import json
CHECKS = {
 "C06": dict(level="exploration", design="2/C06",
   technique="bounded exhaustive enumeration: every function/aggregate variant x argument boxes on a bound grid x every grid point in the box, on the real code",
   text="Exhaustive exploration of the real Function::super_image / Function::value (and Expr::super_image / Expr::value for depth-2 trees) over all function and aggregate variants, all argument boxes built from a bound grid (unions of intervals, optional, int/float mixes, i64/f64 extremes) and every grid point inside each box; the oracle is an independent membership function. Sound for the grid; says nothing outside it.",
   note="Trusted: the reference membership (refm.rs, 150 lines), the grids. A panic/Err of value() is 'does not evaluate'. Float membership is up to 1e-9 relative tolerance."),
 "C11": dict(level="model_checking", design="2/C11",
   technique="explicit-state BFS (stateright) over interval-set operation histories on the real Intervals<B> with every transition compared to an independent interval-list model; exhaustive type-pair x value enumeration for the lattice laws",
   text="(a) stateright breadth-first search over all histories of union_interval / intersection_interval / union / intersection / to_simple_superset / into_interval on the real Intervals<B> (B = i64, f64, String, bool), from empty, full and 125/126/127-interval seeds so that one or two steps cross the real capacity of 128; every transition is executed on the implementation and its result must be sorted, disjoint, within capacity and contain the exact result computed by an independent interval-list reference. Thorough runs to the fixpoint (all reachable states). (b) All ordered pairs of an enumerated universe of data types (all 21 variants, nesting depth <= 2) x a value universe: subset, union, intersection and own-type laws.",
   note="Trusted: the reference interval list (40 lines) and the reference membership functions (refm.rs). Cross-variant membership is taken modulo the library's own value conversion. Quick bounds the history depth to 5."),
 "C10": dict(level="exploration", design="2/C10",
   technique="bounded exhaustive enumeration: predicates up to depth 2/3 over an atom alphabet x struct types from the grids x every row of grid points; all join kinds x ON predicates x every row pair, on the real DataType::filter / Join builder",
   text="Every predicate of the alphabet (comparisons in both operand orders, column-vs-column, IN lists, an unsupported arithmetic sub-term, NOT, all AND/OR pairs; thorough adds depth 3) is applied with the real DataType::filter to every struct type of the grid (intervals, unions, value sets, optional, int/float, text) and, for every row of grid points on which the predicate is true (library evaluator, cross-checked by an independent three-valued evaluator), the row must belong to the narrowed type. The same for the field types of Joins built with the real builder in all five kinds, including the NULL-padded rows of the preserved side.",
   note="Trusted: reference membership, the independent evaluator (used only to refuse premises the library cannot evaluate). Values outside the grids are not explored."),
 "C12": dict(level="exploration", design="2/C12",
   technique="bounded exhaustive enumeration of ordered type pairs x all pairs of values of the source type, on the real into_data_type / as_data_type",
   text="All ordered pairs (A,B) of an enumerated universe of data types (21 variants, depth <= 2, integers around 2^53 and at the i64 extremes, numeric value sets rendered to text) x all values of A from a value universe and all pairs of them: a convertible type converts every value into the converted type, distinct values stay distinct, same-shape reverse conversions return the original, lossy conversions (non-integral float to integer, out-of-range integer to boolean) are refused.",
   note="Trusted: reference membership. Wrapping conversions into `any`-typed containers are excluded from the round-trip clause (no inverse exists)."),
 "C08": dict(level="translation_validation", design="2/C08",
   technique="translation validation over an exhaustively enumerated program space: every E-sql query x every database instance of a tiny world, original vs rendered SQL executed on the same in-process SQLite",
   text="Every query of a deterministic enumeration of the supported SQL fragment (projections, scalar/aggregate mixes, GROUP BY on columns/aliases/expressions, HAVING, DISTINCT, CTEs, derived tables, joins of all kinds with ON/USING/NATURAL and chains, set operations, ORDER BY/LIMIT/OFFSET, quoted identifiers and literals) is compiled by the real parser/IR/renderer and both texts are executed on every database instance of the tables it reads (<= 3-4 rows in total, NULLs, duplicate and unmatched keys): equal multisets, equal sequences under a total ORDER BY, equal column count and SQL-defined names.",
   note="Trusted: SQLite 3.40 for the shared PostgreSQL/SQLite subset and a self-tested UDF shim (DQS off). Both texts run on the same engine, so dialect differences cancel; SELECT * over USING/NATURAL joins is aligned by name (SQLite's column order differs from the standard)."),
 "C07": dict(level="exploration", design="2/C07",
   technique="bounded exhaustive enumeration: every E-sql query x every database instance of the tables it reads, real compiler vs rows executed by in-process SQLite",
   text="Every query of the E-sql enumeration is compiled by the real parser/IR; for every database instance of the tables it reads (all multisets of <= 3-4 rows in total over 2-3-value column domains with NULLs and range boundaries, unique columns honoured; tables declared with interval sizes and again with the exact instance sizes) the original query is executed on SQLite and every returned cell must be a reference member of the declared column type (NULL iff optional) and the row count must lie in the declared size.",
   note="Trusted: SQLite 3.40 + self-tested shim; reference membership. Values outside the column domains and queries outside E-sql are not explored."),
 "C14": dict(level="exploration", design="2/C14",
   technique="bounded exhaustive enumeration: E-sql queries (incl. every function listed as a bijection applied to unique columns, group-by keys, joins on unique / non-unique keys, set operations) x all database instances honouring the base constraints",
   text="For every compiled E-sql query and every database instance honouring the declared UNIQUE columns, each output field the relation flags UNIQUE / PRIMARY KEY must hold pairwise distinct non-null values in the rows SQLite returns for the original query.",
   note="Trusted: SQLite 3.40 + shim. Only the uniqueness flags the compiler emits are checked (137k flagged columns in the quick tier)."),
 "C15": dict(level="model_checking", design="2/C15",
   technique="explicit-state BFS (stateright) over insert histories of the real Hierarchy with all lookups compared to a literal reference in every state; exhaustive list of name-clash queries judged by SQLite's ambiguity verdict",
   text="(a) stateright BFS over all histories of with / extend / from / prepend / collect on the real Hierarchy<u8>, over all paths of length <= 3 on a two-letter alphabet with <= 3 (thorough 4) entries; in every reachable state all 31 lookup paths of length <= 4 through get, get_key_value and Index (panic <=> nothing) must agree with a reference that spells the rule of the property out literally. (b) every query of a list of name clashes (same column in two joined relations in all join kinds and clause positions, self joins, three-way clashes, aliases and CTEs shadowing tables): when SQLite reports an ambiguous column the compiler must not return a relation (an error, or a panic which is handed to C18); when both accept, the results agree on every small database.",
   note="Trusted: the 20-line reference lookup; SQLite's name resolution as the ambiguity oracle (it agrees with PostgreSQL on these queries)."),
 "C18": dict(level="exploration", design="2/C18",
   technique="bounded exhaustive enumeration of (query x schema variant x DpParameters) through every pipeline stage of the real compiler, each case in a supervised child process (panic / abort / timeout attributed to the case)",
   text="Every E-sql query, every name-clash query and one probe per SQL construct the fragment does not claim (about 110) is pushed, for each schema variant (standard, unbounded, zero-containing ranges, i64/f64 extremes; thorough adds zero-width, 129-interval sets, empty value sets, all-nullable), through parse -> relation -> schema -> render -> privacy-unit rewriting (both strategies) -> DP rewriting under several DpParameters including zero budgets. Each stage must end Ok or Err: a panic (caught), an abort or a stall of the child process is a violation attributed to the case. Accepted unsupported constructs must still read every table they name and agree with SQLite on every small database.",
   note="Trusted: the supervisor (per-case wall clock 20/40 s stands for non-termination). Panic signatures are per query, stage and panic site (file + message, no line number)."),
 "C17": dict(level="translation_validation", design="2/C17",
   technique="translation validation over enumerated programs x 8 translators: sqlparser's dialect parsers as acceptance oracle, the library's own dialect readers for read-back, in-process SQLite for the one executable dialect",
   text="Every compiled E-sql relation (quick: every second one) and the DP rewriting of every aggregate query, plus identifiers with spaces, reserved words and quotes, is rendered by each of the eight translators; the text must be accepted by sqlparser's parser for that dialect as exactly one query; for the seven reading translators the read-back relation must have the same column names, order and types; the SQLite rendering must execute on SQLite with the results of the PostgreSQL rendering.",
   note="Acceptance is judged by sqlparser's dialect parsers, not by the real engines. The 'same results' clause is decided for SQLite only; it is NOT decided for the other seven dialects (no engine offline). Signatures are per dialect, failure class and query feature tags."),
 "C01": dict(level="exploration", design="2/C01",
   technique="bounded exhaustive enumeration of neighbouring database pairs: every DP query of the enumeration x DpParameters grid x every database instance x every privacy unit removed, pre-noise aggregate vectors materialised node by node on in-process SQLite and compared with the clip bound read from the DP relation",
   text="For every query of the DP enumeration (COUNT/SUM/AVG/VAR/STDDEV, distinct variants, group by private / public keys, joins along the privacy-unit path, filters, ranges containing zero / negative / NULL) and every point of a DpParameters grid, the relation returned by the real rewrite_with_differential_privacy is analysed (dpir.rs) to find each noised column, its sigma and the clip bound C = sigma / multiplier; the node feeding the noise is materialised on SQLite for every database instance D of a tiny world and for D minus each privacy unit; the Euclidean norm of the difference over all groups must be <= C (1e-9 relative).",
   note="Trusted: SQLite + shim; the IR reader dpir.rs (pattern: column + sigma * gaussian noise expression), cross-checked by the count of noised columns expected per query. Databases are bounded to <= 3-4 rows; larger per-unit row counts are covered through the multiplicity parameter grid only."),
 "C03": dict(level="exploration", design="2/C03",
   technique="bounded exhaustive enumeration of DP queries x DpParameters grid: mechanisms read from the real DP relation matched one by one against the returned DpEvent, with independently re-implemented Gaussian / tau calibration",
   text="For every DP query x DpParameters grid point, every noised column and every tau-threshold found in the returned relation must be matched by an entry of the returned privacy event: recorded noise multiplier <= sigma/C of the query, thresholding recorded with >= the epsilon, delta used; and sigma must be >= the analytic / classical Gaussian calibration (re-implemented in the harness) for the per-aggregate share of the budget, tau >= the reference tau.",
   note="Trusted: reference calibration formulas (dpchecks.rs, 60 lines); dpir.rs reader. Composition across queries is not in scope."),
 "C05": dict(level="exploration", design="2/C05",
   technique="bounded exhaustive enumeration: every E-sql query accepted by privacy-unit rewriting x every database x every unit, rewritten relation executed on in-process SQLite on D and on D restricted to the unit",
   text="Every E-sql query (quick: every fourth) is rewritten by the real rewrite_as_privacy_unit_preserving under both strategies; for every database instance D and every unit u the rows of the rewritten relation on D attributed to u must equal, as a multiset, its rows on D with all protected rows not owned by u deleted; every row carries non-null unit id and weight.",
   note="Trusted: SQLite + shim; ownership of rows follows the declared privacy-unit paths (dangling foreign keys own nothing). Quick uses the compact world (2-value domains)."),
 "C09": dict(level="exploration", design="2/C09",
   technique="bounded exhaustive exploration: (DP query x parameter grid x database) enumerated (DP query x parameter grid x database) with the random source scripted to zero noise: DP relation vs original query on in-process SQLite",
   text="With RANDOM() scripted so that every Gaussian draw is 0, for every DP query x every database instance inside the declared ranges whose per-unit multiplicity fits the clipping bound and whose groups survive (public keys, or thresholds disabled by the parameters), the DP relation and the original query return the same groups with the same COUNT/SUM/AVG and variance / stddev within 1e-6.",
   note="Trusted: SQLite + shim, the scripted random source (Box-Muller arguments giving exact 0). Preconditions (in-range, multiplicity, no dangling foreign keys) are checked per database and skipped cases are counted."),
 "C02": dict(level="model_checking", design="2/C02",
   technique="exhaustive enumeration of every consistent rule derivation the real setter / eliminator / selector produce (label-path invariant on each) plus a bounded exhaustive information-flow test: returned relation executed on every neighbouring database pair under a scripted random source",
   text="(a) Rule level: for every E-sql relation x protected-table assignment x synthetic data {none, full, partial} x strategy, ALL derivations enumerated by the real rule machinery are walked: rule inputs equal the children's labels, no Public/Published label above Private/PUP rows without a DP node in between, DP only on a Reduce over PUP, protected tables never Public, SD never over Private/PUP. (b) Behavioural: the relation returned by rewrite_with_differential_privacy (DP queries and plain queries published through synthetic data) is materialised on every database D and D minus each unit; every output cell / row presence that follows the protected rows must also move when the scripted random source changes, otherwise it is a plain function of protected rows.",
   note="Trusted: SQLite + shim, the scripted RANDOM(). (b) cannot tell how much noise there is (C01/C03/C04 do). Partial synthetic-data maps make the unchanged library panic (left to C18)."),
 "C04": dict(level="fault_enumeration", design="2/C04",
   technique="deviation-bounded exhaustive enumeration of the random source's answers (scripted RANDOM()) x all database instances, with the key-release pipeline of the real DP relation materialised node by node on in-process SQLite",
   text="For every grouped DP query (private / mixed / computed / nullable keys, foreign-key path, direct weighted privacy units) x Cu x every database instance x every random script with <= 1 (thorough 2) deviations from the zero-noise answer among the first K draws: the contribution-limited (key, unit) table, the per-key unit count, the noisy count and the threshold filter are read back and checked: counts equal distinct units in the limited table and never exceed the distinct units in the database (hand-written ground-truth SQL), no unit holds more than Cu groups, a key passes only if its noisy count in that execution exceeds the tau literal, released private keys passed the filter, singleton keys are never released with zero noise.",
   note="The value of tau and sigma_count against (epsilon, delta) is decided by C03. Scripts deviate in the first K <= 10 draws only; probability statements are not decided (only the deterministic pipeline for each drawn noise)."),
 "C13": dict(level="model_checking", design="2/C13",
   technique="exhaustive enumeration of rule assignments: an independent reference enumerates / counts all consistent derivations of the rule-annotated tree and the real search (observed through hook events candidate / selected / rewritten) is compared on every tree",
   text="For every E-sql relation (quick: every third) x protected-table assignment x synthetic data on/off x entry point (DP, PUP hard/soft): the rule lists the real setter attaches are copied; an independent recursion enumerates every consistent assignment (one rule per node, inputs = children's outputs) with its score; the real compiler must return Ok exactly when an acceptable-root derivation exists (UnreachableProperty otherwise), the derivation it applies (hook H2) must be consistent at every node and no consistent derivation may have a strictly higher score.",
   note="Scores are the library's own (the property is relative to them). Hook events come from the cfg-guarded qrlew::verif module."),
 "C16": dict(level="model_checking", design="2/C16",
   technique="explicit-state search over histories of earlier compilations (states = snapshots of the process-wide name counter, restored through a hook), a cooperative scheduler exploring all interleavings of naming operations up to a preemption bound, and exhaustive render -> parse -> render fixpoint over E-sql",
   text="(a) BFS over counter states reachable by polluting operations (compilations using VALUES / random(), PUP and DP rewritings) to depth 2 (thorough 3): in EVERY reachable state every E-sql compilation must give the output it gives from the initial state, and rendering twice gives the same text. (b) all schedules of 2-3 threads calling namer::new_id / compiling concurrently, switching at the counter's lock (hook sched_point), preemption bound 2 (thorough 4): ids per prefix distinct and dense, compile output independent of the schedule; each schedule replayed once for determinism. (c) every E-sql relation: rendered SQL is re-parsed and re-rendered; schema (names, order, types) equal, results equal on SQLite on every small database.",
   note="Determinism of the PUP / DP rewritings is explored too but only reported as an observation: the statement is about parsing and rendering. Threads are real OS threads serialised by the hook; memory-model effects are not explored (the counter is a Mutex)."),
}
NOT_YET = {}
COMPOSED = {
 "C01": ", here as aggregates over level-1 terms and over joins, plus ordered pairs / triples of aggregates over two columns",
 "C09": ", here as aggregates over level-1 terms and over joins, plus ordered pairs / triples of aggregates over two columns",
 "C03": ", here as joins / set operations of two aggregating sub-queries (same mechanism shape)",
 "C05": ", each subject also with tables registered under a Qrlew name different from the path and at schema-qualified paths",
 "C02": ", subjects also with tables registered under a Qrlew name different from the path and at schema-qualified paths",
 "C07": "", "C08": "", "C14": "", "C13": "", "C16": "", "C17": ", plus a check that the translated WITH clause declares every name once",
 "C18": ", plus a sweep of every scalar function of the SQL front-end over column kinds and constants",
}

SCOPE = {
 "C01": " Not decided: programs in which a join sits over an aggregating sub-query (the sub-query is released by its own mechanism); the aggregation decided is the one at the top of the program.",
 "C09": " Not decided: programs in which a join sits over an aggregating sub-query (the sub-query is released by its own mechanism); the aggregation decided is the one at the top of the program.",
 "C05": " The row equality is not decided for a rewriting that embeds a differentially private release (its cells are releases, governed by C01-C04); the null-unit / foreign-unit clauses are. Units that appear in the result but own nothing are enumerated too.",
 "C11": " The own-type law is decided both with the reference membership and with the library's own contains.",
 "C03": " The Gaussians of the per-DISTINCT-column splits of one aggregation are summed against its budget; with several aggregations each is checked on its own.",
 "C06": " List-typed operands are explored for IN only.",
}

def main():
    props = [json.loads(l) for l in open('/verif/properties.jsonl')]
    checks = []
    na = []
    for p in props:
        pid = p['id']
        if pid in CHECKS:
            c = dict(CHECKS[pid])
            if pid in COMPOSED:
                c['technique'] += "; the program space is the hand-written E-sql list plus every constructor term (projection / aggregation / DISTINCT / ORDER-LIMIT / join / set operation / shared CTE) of nesting depth <= 2 (thorough 3) over lean alphabets (harness/src/sqlgen2.rs)" + COMPOSED[pid]
                c['note'] += " Known findings are matched per case or, for the composed terms, per root-cause class (kind @structural feature of the relation, harness/src/features.rs)."
            c['note'] += SCOPE.get(pid, "")
            checks.append({
                "property_id": pid,
                "quick_cmd": f"./check {pid} quick",
                "thorough_cmd": f"./check {pid} thorough",
                "evidence_file": f"/verif/evidence/{pid}.json",
                "replay_cmd_template": f"./check {pid} quick --replay {{path}}",
                "engine": "qv",
                "level_claimed": {"category": c['level'], "text": c['text'], "design_ref": c['design']},
                "level_note": c['note'],
                "technique": c['technique'],
            })
        else:
            na.append({"property_id": pid, "reason": NOT_YET.get(pid, "check not built yet in this session (planned: see DESIGN.md section 2); nothing is claimed for it")})
    m = {
        "version": 1,
        "setup_cmd": "cd /verif/harness && CARGO_NET_OFFLINE=true cargo build --offline",
        "hooks": {
            "guard": "cargo feature qrlew_verif",
            "enable": "the harness depends on qrlew by path with features [\"sqlite\", \"qrlew_verif\"] (harness/Cargo.toml); cargo build --features qrlew_verif in /repo",
            "baseline_off_cmd": "/verif/baseline_off.sh",
            "source_commits": ["80602cb"],
            "fix_commits": ["11afd7c", "f09b54c", "2b20237", "0e4f4eb", "3b8a08b", "3aeabf5", "eb6a376", "4895a09", "c8d5a4c", "e342fc3", "940e3b2", "510ec4c", "a036dfd", "9167b6b"],
            "add_only": True,
        },
        "engines": [{"name": "qv", "path": "/verif/harness", "serves_properties": sorted(CHECKS), "kind_free_text": "Rust binary linking the real qrlew crate from /repo's working tree; deterministic exhaustive enumerators, explicit-state search (stateright), in-process SQLite as independent SQL semantics"}],
        "checks": checks,
        "not_applicable": na,
        "notes": "All checks: ./check <ID> <quick|thorough> [--replay file]. exit 0 held / 1 VIOLATION (takes precedence) / 2 machinery failure only. Known genuine defects: /verif/known_findings.json.",
    }
    json.dump(m, open('/verif/MANIFEST.json', 'w'), indent=1)
    print("checks:", [c['property_id'] for c in checks], "not_applicable:", len(na))
main()
