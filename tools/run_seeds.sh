#!/usr/bin/env bash
# usage: run_seeds.sh [tier] [seed dirs...]   (default: quick, every /verif/seeded/*)
# For each kept seed: apply its patch to /repo, run the check(s) named in meta.json (default: the seed's
# property) at the tier, undo the patch; record the outcome in meta.json ("checks") and print a table.
set -u
TIER=${1:-quick}; shift || true
DIRS=${*:-$(ls -d /verif/seeded/*/)}
cd /verif
if [ -n "$(git -C /repo status --porcelain --untracked-files=no)" ]; then echo "/repo has uncommitted changes"; exit 2; fi
for d in $DIRS; do
  d=${d%/}; id=$(basename $d); prop=$(python3 -c "import json;print(json.load(open('$d/meta.json'))['property'])")
  git -C /repo apply $d/patch.diff || { echo "$id: patch does not apply"; continue; }
  out=$(./check $prop $TIER 2>&1 | grep -v "^KNOWN-FINDING"); code=$?
  nv=$(echo "$out" | grep -c "^VIOLATION")
  sig=$(echo "$out" | grep -A1 "^VIOLATION" | grep signature | head -1 | cut -c1-160)
  last=$(echo "$out" | tail -1 | cut -c1-120)
  git -C /repo checkout -- .
  echo "$id property=$prop tier=$TIER violations=$nv $sig | $last"
  python3 - "$d/meta.json" "$prop" "$TIER" "$nv" "$sig" <<'PY'
import json,sys
p,prop,tier,nv,sig=sys.argv[1:6]
m=json.load(open(p))
cs=[c for c in m.get('checks',[]) if not (c.get('check')==prop and c.get('tier')==tier)]
cs.append({"check":prop,"tier":tier,"violations":int(nv),"first_signature":sig.strip()})
m['checks']=cs
json.dump(m,open(p,'w'),indent=1)
PY
done
git -C /repo status --short | head -3
