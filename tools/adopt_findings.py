#!/usr/bin/env python3
"""Manual tool (never run by a check): after REVIEWING the violations a check reported on the
unchanged tree and establishing that each is a genuine defect of the code under test, record
their signatures in /verif/known_findings.json.
usage: adopt_findings.py <ID> [--what "<text>"] [--match <substring>]  (reads /verif/replays/<ID>/*.json)
"""
import json, glob, sys, os
pid = sys.argv[1]
what = None; match = None
a = sys.argv[2:]
while a:
    if a[0] == '--what': what = a[1]; a = a[2:]
    elif a[0] == '--match': match = a[1]; a = a[2:]
    else: raise SystemExit('bad arg ' + a[0])
path = '/verif/known_findings.json'
kf = json.load(open(path)) if os.path.exists(path) else {"findings": []}
have = {(f['property'], f['signature']) for f in kf['findings']}
n = 0
for f in sorted(glob.glob(f'/verif/replays/{pid}/*.json')):
    j = json.load(open(f))
    sig = j['signature']
    if match and match not in sig: continue
    if (pid, sig) in have: continue
    d = j['detail']
    example = {k: d[k] for k in list(d)[:8]}
    entry = {"property": pid, "signature": sig, "status": "open", "what": what or "", "case_id": j['case_id']}
    # one worked example per (property, root cause) is enough
    if not any(f['property'] == pid and f.get('what') == (what or "") and 'example' in f for f in kf['findings']):
        entry["example"] = example
    kf['findings'].append(entry)
    n += 1
json.dump(kf, open(path, 'w'), indent=0, ensure_ascii=False)
print(f'adopted {n} signatures for {pid}')
