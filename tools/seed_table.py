#!/usr/bin/env python3
"""Prints the markdown table of DESIGN.md §6.4 from /verif/seeded/*/meta.json."""
import json, glob, os
rows = []
for d in sorted(glob.glob('/verif/seeded/*/')):
    name = os.path.basename(d.rstrip('/'))
    m = json.load(open(d + 'meta.json'))
    q = [c for c in m.get('checks', []) if c.get('tier') == 'quick' and c.get('check') == m['property']]
    caught = 'quick: %d' % q[-1]['violations'] if q else '?'
    t = [c for c in m.get('checks', []) if c.get('tier') == 'thorough']
    if t: caught += '; thorough: %d' % t[-1]['violations']
    rows.append((name, m['property'], m.get('summary', ''), m.get('needs', ''), caught, m.get('strengthening', '')))
print('| seed | change | needs | violations reported by its check | what the check lacked before |')
print('|---|---|---|---|---|')
for name, prop, s, n, c, st in rows:
    print(f'| {name} | {s} | {n} | {c} | {st} |')
