#!/usr/bin/env python3
"""Manual tool: after a "fix:" commit in /repo, turn the open known findings it repairs into fixed entries
(a fixed entry suppresses nothing: if the signature ever shows up again it is reported as a VIOLATION).
usage: mark_fixed.py <ID> --match <substring of signature> --commit <hash> --what "<what failed>" [--what-match <substring of what>]"""
import json, sys
pid = sys.argv[1]; a = sys.argv[2:]; match = None; commit = None; what = None; wm = None
while a:
    if a[0] == '--match': match = a[1]
    elif a[0] == '--commit': commit = a[1]
    elif a[0] == '--what': what = a[1]
    elif a[0] == '--what-match': wm = a[1]
    else: raise SystemExit('bad arg ' + a[0])
    a = a[2:]
assert commit and what and (match or wm)
path = '/verif/known_findings.json'
kf = json.load(open(path)); n = 0
for f in kf['findings']:
    if f['property'] == pid and f.get('status') == 'open' and (match is None or match in f['signature']) and (wm is None or wm in f.get('what', '')):
        f['status'] = 'fixed'; f['commit'] = commit; f['what'] = f'fixed: property={pid} {commit} {what}'; n += 1
json.dump(kf, open(path, 'w'), indent=0, ensure_ascii=False)
print(f'marked {n} findings of {pid} fixed by {commit}')
