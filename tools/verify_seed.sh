#!/usr/bin/env bash
# usage: verify_seed.sh <NAME> <dir with patch.diff demo.rs notes.md> [property = check id, default NAME]
#        (NAME is the directory under /verif/seeded, e.g. C03 or C03-2)
# 1. confirms in a scratch worktree that the change compiles, passes the 403 baseline tests, and that the
#    demonstration fails with it and passes without it; 2. applies it to /repo, runs the checks, undoes it.
set -u
ID=$1; SRC=$2; shift 2; CHECKS=${*:-$ID}; PROP=${CHECKS%% *}; T=$(echo $ID | tr "-" "_")
OUT=/verif/seeded/$ID; mkdir -p $OUT
cp $SRC/patch.diff $OUT/patch.diff; cp $SRC/demo.rs $OUT/demo.rs; cp $SRC/notes.md $OUT/notes.md 2>/dev/null
WT=/tmp/vs_wt   # one fixed scratch path + one shared target dir: only the changed files are recompiled
export CARGO_TARGET_DIR=/tmp/vs_target
git -C /repo worktree remove --force $WT >/dev/null 2>&1
git -C /repo worktree add --detach $WT HEAD >/dev/null 2>&1 || { echo "cannot create worktree"; exit 2; }
mkdir -p $WT/tests; cp $SRC/demo.rs $WT/tests/demo_$T.rs
cd $WT
export CARGO_NET_OFFLINE=true
if ! git apply $OUT/patch.diff; then echo "PATCH DOES NOT APPLY"; applies=false; else applies=true; fi
build=$(cargo build --offline 2>&1 | tail -1)
base=$(QV_REPO=$WT bash /verif/baseline_off.sh | tail -1)
demo_with=$(cargo test --offline --features sqlite --test demo_$T 2>&1 | grep -E "^test result|error(\[|:)" | head -3 | tr '\n' ' ')
git apply -R $OUT/patch.diff
demo_without=$(cargo test --offline --features sqlite --test demo_$T 2>&1 | grep -E "^test result|error(\[|:)" | head -3 | tr '\n' ' ')
cd /verif
git -C /repo worktree remove --force $WT
unset CARGO_TARGET_DIR
echo "applies=$applies | build: $build | baseline: $base"
echo "demo with change: $demo_with"
echo "demo without change: $demo_without"
# run the checks against /repo with the change applied
results=""
git -C /repo apply /verif/seeded/$ID/patch.diff || { echo "cannot apply to /repo"; exit 2; }
for c in $CHECKS; do
  for tier in quick; do
    out=$(./check $c $tier 2>&1 | grep -v "^KNOWN-FINDING")
    nv=$(echo "$out" | grep -c "^VIOLATION")
    first=$(echo "$out" | grep -A1 "^VIOLATION" | grep signature | head -2 | tr '\n' ';')
    echo "check $c $tier: violations=$nv $first"
    results="$results{\"check\":\"$c\",\"tier\":\"$tier\",\"violations\":$nv},"
  done
done
git -C /repo checkout -- . ; git -C /repo status --short | head -3
python3 - "$ID" "$applies" "$build" "$base" "$demo_with" "$demo_without" "[${results%,}]" "$PROP" <<'PY'
import json,sys
ID,applies,build,base,dw,dwo,res,PROP=sys.argv[1:9]
meta={"property":PROP,"applies":applies=="true","build":build,"baseline_with_change":base,"demo_with_change":dw,"demo_without_change":dwo,"checks":json.loads(res),
      "ran":["git worktree add /tmp/vs_ID; git apply patch.diff; cargo build --offline; baseline_off.sh (403 tests); cargo test --test demo_ID (with / without the change)","git -C /repo apply patch.diff; ./check <id> quick; git -C /repo checkout -- ."]}
p=f"/verif/seeded/{ID}/meta.json"
try: old=json.load(open(p))
except Exception: old={}
old.update(meta); json.dump(old,open(p,'w'),indent=1)
PY
