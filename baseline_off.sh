#!/usr/bin/env bash
# Runs the repository's 403-test stable baseline with the verification guard OFF and compares the
# pass set with /root/.vp/BASELINE.json. (A plain `cargo test --workspace` would also start the 74
# PostgreSQL tests, which spin on a `docker` stub in this sandbox; they are outside the baseline.)
set -u
REPO="${QV_REPO:-/repo}"
export CARGO_NET_OFFLINE=true
names=$(python3 - <<'PY'
import json
b=json.load(open('/root/.vp/BASELINE.json'))
print(' '.join(n[len('qrlew::'):] if n.startswith('qrlew::') else n for n in b['stable_pass']))
PY
)
n_expected=$(echo $names | wc -w)
cd "$REPO" || exit 2
out=$(cargo test --lib --offline -- --exact $names 2>&1)
echo "$out" | tail -5
passed=$(echo "$out" | grep -c '\.\.\. ok$')
failed=$(echo "$out" | grep -c '\.\.\. FAILED$')
echo "baseline_off: expected=$n_expected passed=$passed failed=$failed"
if [ "$passed" -eq "$n_expected" ] && [ "$failed" -eq 0 ]; then exit 0; else echo "$out" | grep FAILED; exit 1; fi
